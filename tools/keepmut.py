#!/usr/bin/env python3
"""keepmut.py <srcdir> <seeded-id> <round> <first_run> <caught_by>  -- file a confirmed seeded change under /verif/seeded/<id>/"""
import json, os, shutil, sys
src, sid, rnd, first, caught = sys.argv[1:6]
dst = f'/verif/seeded/{sid}'
os.makedirs(dst, exist_ok=True)
for f in ('patch.diff', 'demo_test.go', 'notes.md'):
    shutil.copy(os.path.join(src, f), os.path.join(dst, f))
prop = sid.split('-')[0]
meta = {
  "property": prop, "round": int(rnd),
  "source": "independent sub-agent given only the property text and a scratch worktree (no access to /verif)",
  "needs_to_manifest": open(os.path.join(src, 'notes.md')).read()[:1500],
  "confirmed": "tools/confirm_mut.sh in a scratch worktree of /repo HEAD: patch applies, go test ./... passes with it, demo_test.go fails with it and passes without",
  "ran": f"tools/trymut.sh seeded/{sid}/patch.diff {prop}  -> exit 1, VIOLATION",
  "first_run": first, "caught_by": caught,
}
json.dump(meta, open(os.path.join(dst, 'meta.json'), 'w'), indent=1)
print('kept', dst)
