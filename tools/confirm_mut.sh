#!/bin/sh
# usage: confirm_mut.sh <mutdir>   (mutdir holds patch.diff, demo_test.go, notes.md)
# Confirms in a scratch worktree of /repo HEAD: patch applies, suite passes with it, demo fails with it and passes without.
d="$1"
wt=$(mktemp -d /tmp/confirm.XXXXXX)
export GOFLAGS=-mod=mod GOPROXY=off GOSUMDB=off
git -C /repo worktree add -q --detach "$wt" HEAD || exit 2
cd "$wt"
pkg=url
grep -q "package canonicalizer" "$d/demo_test.go" && pkg=canonicalizer
res=""
cp "$d/demo_test.go" "$pkg/zz_demo_test.go"
if go test -count=1 ./$pkg/ >/tmp/confirm.out 2>&1; then res="$res clean:demo-pass"; else res="$res clean:demo-FAIL"; fi
if git apply "$d/patch.diff" 2>/dev/null; then res="$res apply:ok"; else res="$res apply:FAIL"; fi
rm "$pkg/zz_demo_test.go"
if go test -count=1 ./... >/tmp/confirm.out 2>&1; then res="$res suite:pass"; else res="$res suite:FAIL"; fi
cp "$d/demo_test.go" "$pkg/zz_demo_test.go"
if go test -count=1 ./$pkg/ >/tmp/confirm.out 2>&1; then res="$res mutant:demo-PASS(not-detected-by-demo)"; else res="$res mutant:demo-fail"; fi
cd /
git -C /repo worktree remove --force "$wt"
echo "$d:$res"
