#!/usr/bin/env python3
"""Rewrites the 'obligations / clauses' column of DESIGN.md's A.3 table from the evidence files of the last runs."""
import json, re
s = open('/verif/DESIGN.md').read()
def fmt(n): return f"{n:,}".replace(",", " ")
for pid in ['C01','C02','C04','C05','C06','C07','C08','C09','C10','C11','C12','C13','C14','C15','C16','C19']:
    try:
        c = json.load(open(f'/verif/evidence/{pid}.json'))['coverage']
    except Exception:
        continue
    new = f"| {pid} | {fmt(c['obligations'])} / {fmt(c['baseline_clauses_claimed'])} |"
    s, n = re.subn(r"\| %s \| [^|]* \|" % pid, new, s, count=1)
open('/verif/DESIGN.md', 'w').write(s)
print('updated')
