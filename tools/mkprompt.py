#!/usr/bin/env python3
"""mkprompt.py <prop-id> <suffix>  -> creates worktree /tmp/wt-<id><suffix> (branch nohooks) and prints a sub-agent prompt.
The prompt contains only the property text (nothing from /verif's machinery)."""
import json, subprocess, sys
pid, suf = sys.argv[1], sys.argv[2]
tag = pid + suf
prop = None
for l in open('/verif/properties.jsonl'):
    j = json.loads(l)
    if j['id'] == pid: prop = j
wt = f'/tmp/wt-{tag}'
subprocess.run(['git','-C','/repo','worktree','add','-q','--detach',wt,'nohooks'],check=True)
title = prop.get('title') or prop.get('name') or ''
text = prop.get('statement') or prop.get('text') or prop.get('description') or ''
second = ("This is a LATER round: earlier rounds already tried simple single-site slips (a dropped guard, a missing copy in a clone "
 "function, a wrong table, an unstable sort, byte offset vs rune index in the percent-encoder). Aim for something different and more subtle: a change in a less "
 "obvious function, in the interaction of two sites, in an option-dependent path, or in state carried across several calls. ")
print(f"""You are helping test a verification effort by producing a realistic, subtle defect ("seeded change") in a Go library.

The library is nlnwa/whatwg-url (a Go implementation of the WHATWG URL Standard: url/, canonicalizer/, errors/ packages). You have your OWN scratch git worktree of it at {wt} (work ONLY there; never touch /repo or /verif, and do not read anything under /verif). The Go toolchain works offline; run every go command with these environment variables: GOFLAGS=-mod=mod GOPROXY=off GOSUMDB=off. Run the test suite with: cd {wt} && GOFLAGS=-mod=mod GOPROXY=off GOSUMDB=off go test -count=1 ./...

Here is a semantic property that the library is supposed to satisfy:

---
{pid}: {title}

{text}

---

{second}Your task: make TWO different small source changes (each independent, each as its own patch) to the library's non-test Go code, each of which BREAKS this property while the code still compiles and the existing test suite (go test ./...) still passes completely. Each change should look like a plausible maintenance edit or refactoring slip, not sabotage, and it must need something specific to manifest - an unusual input, a particular option combination, a multi-step sequence of operations, or two cooperating sites that each look fine alone - rather than something ordinary use would expose at once. Do not edit or add test files as part of the change, do not change exported API signatures, and do not touch go.mod.

For each change N in (1, 2) produce, under /tmp/mut-{tag}/N/:
  - patch.diff : the output of `git diff` for that change alone, relative to the worktree's HEAD (apply with `git apply`); source files only.
  - demo_test.go : a Go test file (package url_test or canonicalizer_test as appropriate, using only the public API, to be dropped into the url/ or canonicalizer/ directory) whose test FAILS with the change applied and PASSES on the unchanged tree. State at the top in a comment which directory it belongs in.
  - notes.md : 5-10 lines: what the change is, why it breaks the property, exactly what is needed for it to manifest, and the commands you ran (tests pass with the change; demo fails with it and passes without).

Procedure: make change 1, run the full test suite (must pass), run your demo (must fail), save `git diff > /tmp/mut-{tag}/1/patch.diff`, then `git checkout -- .` and verify the demo passes on the clean tree (remove the demo file from the worktree afterwards); then do the same for change 2. Leave the worktree clean (git status shows nothing) when you finish. Report briefly what the two changes are.""")
