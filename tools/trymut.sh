#!/bin/sh
# usage: trymut.sh <patch.diff> <property>...   — apply a seeded change to /repo, run the quick checks, undo it.
patch="$1"; shift
cd /repo || exit 2
if [ -n "$(git status --porcelain)" ]; then echo "repo not clean"; exit 2; fi
git apply "$patch" || { echo "patch does not apply"; exit 2; }
for p in "$@"; do
  out=$(/verif/bin/govc check -p "$p" -tier quick 2>&1); rc=$?
  echo "== $p exit=$rc"
  echo "$out" | grep -E "^(VIOLATION|ERROR|KNOWN)" | cut -c1-300 | head -8
  echo "$out" | tail -1
done
git checkout -- . 
git status --porcelain
