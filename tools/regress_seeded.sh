#!/bin/sh
# usage: regress_seeded.sh [id...]   — runs every seeded change (or the listed ones) against the check of its property in a scratch
# clone of /repo (so /repo itself is not touched); expects exit 1 + VIOLATION for each. Evidence/replay files are written to a
# scratch verif dir, not to /verif.
export GOFLAGS=-mod=mod GOPROXY=off GOSUMDB=off GOTOOLCHAIN=local
R=$(mktemp -d /tmp/regress-repo.XXXXXX)
V=$(mktemp -d /tmp/regress-verif.XXXXXX)
git clone -q /repo "$R" || exit 2
mkdir -p "$V/evidence" "$V/replay"
for d in spec trusted baseline known_findings.txt; do ln -s /verif/$d "$V/$d"; done
ids="$*"
[ -z "$ids" ] && ids=$(ls /verif/seeded)
fail=0
for id in $ids; do
  p=$(echo "$id" | cut -d- -f1)
  if grep -q '"status": "obsolete"' /verif/seeded/$id/meta.json; then echo "$id: obsolete (see meta.json), skipped"; continue; fi
  ( cd "$R" && git checkout -q -- . && git clean -fdq && git apply /verif/seeded/$id/patch.diff ) || { echo "$id: patch does not apply"; fail=1; continue; }
  out=$(/verif/bin/govc check -repo "$R" -verif "$V" -p "$p" -tier quick 2>&1); rc=$?
  nv=$(echo "$out" | grep -c "^VIOLATION")
  known=$(grep -c '"status": "not-detected"' /verif/seeded/$id/meta.json)
  if [ $rc -eq 1 ] && [ "$nv" -gt 0 ]; then echo "$id: detected ($nv violations)";
  elif [ "$known" -gt 0 ]; then echo "$id: not detected (recorded as a known miss in meta.json) rc=$rc";
  else echo "$id: NOT DETECTED rc=$rc"; echo "$out" | tail -3; fail=1; fi
done
rm -rf "$R" "$V"
exit $fail
