#!/bin/sh
# runs every registered quick check once; prints id, exit code, wall time, summary line
for p in $(python3 -c "import json;print(' '.join(c['property_id'] for c in json.load(open('/verif/MANIFEST.json'))['checks']))"); do
  s=$(date +%s)
  out=$(/verif/bin/govc check -p $p -tier quick 2>&1); rc=$?
  e=$(date +%s)
  echo "$p rc=$rc $((e-s))s $(echo "$out" | grep -c '^VIOLATION') violations; $(echo "$out" | tail -1 | cut -c1-150)"
  echo "$out" | grep '^VIOLATION' | cut -c1-250
done
