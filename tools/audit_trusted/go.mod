module audit_trusted

go 1.23
