// audit_trusted samples the assumed contracts of /verif/trusted/stdlib.contracts against the real standard library.
// It is NOT part of the verification (assumptions stay assumptions); it exists because one assumed clause about
// strconv.ParseInt turned out to be wrong and had hidden a defect. Exhaustive where the domain is small (all runes),
// randomized elsewhere. Exit 1 on the first clause that does not hold.
package main

import (
	"errors"
	"fmt"
	"math"
	"math/rand"
	u2 "net/url"
	"os"
	"strconv"
	"strings"
	"unicode"
	"unicode/utf8"
)

var failed = false

func check(ok bool, format string, args ...interface{}) {
	if !ok {
		failed = true
		fmt.Printf("ASSUMPTION VIOLATED: "+format+"\n", args...)
	}
}

func isDigit(c byte) bool { return '0' <= c && c <= '9' }
func digitVal(c byte) int {
	switch {
	case isDigit(c):
		return int(c - '0')
	case 'A' <= c && c <= 'Z':
		return int(c-'A') + 10
	case 'a' <= c && c <= 'z':
		return int(c-'a') + 10
	}
	return 99
}
func digitsIn(s string, from, base int) bool {
	for k := from; k < len(s); k++ {
		if digitVal(s[k]) >= base {
			return false
		}
	}
	return true
}
func parseIntSyntax(s string, base int) bool {
	if len(s) < 1 {
		return false
	}
	if s[0] == '+' || s[0] == '-' {
		return len(s) >= 2 && digitsIn(s, 1, base)
	}
	return digitsIn(s, 0, base)
}
func nonchar(r rune) bool {
	return (0xFDD0 <= r && r <= 0xFDEF) || (0 <= r && r <= 0x10FFFF && (r%65536 == 65534 || r%65536 == 65535))
}
func asciiStr(s string) bool {
	for i := 0; i < len(s); i++ {
		if s[i] >= 128 {
			return false
		}
	}
	return true
}

func randStr(rng *rand.Rand, alphabet string, maxLen int) string {
	n := rng.Intn(maxLen + 1)
	var sb strings.Builder
	for i := 0; i < n; i++ {
		sb.WriteByte(alphabet[rng.Intn(len(alphabet))])
	}
	return sb.String()
}

func main() {
	rng := rand.New(rand.NewSource(1))
	// ---- strconv.ParseInt ------------------------------------------------------------------------------------------
	alpha := "0123456789abcdefABCDEFgxz+-_ 7fF"
	for it := 0; it < 400000; it++ {
		s := randStr(rng, alpha, 24)
		if it%3 == 0 {
			s = strings.Repeat(string(alpha[rng.Intn(16)]), 15+rng.Intn(6)) + randStr(rng, alpha, 3)
		}
		for _, base := range []int{8, 10, 16} {
			i, err := strconv.ParseInt(s, base, 64)
			syn := parseIntSyntax(s, base)
			isRange := errors.Is(err, strconv.ErrRange)
			// (err == nil) ==> syntax; syntax && !range ==> err == nil  [fits is uninterpreted: fits := syntax && !range]
			check(!(err == nil) || syn, "ParseInt(%q,%d): nil error but not syntactically a number", s, base)
			check(!(syn && err != nil) || isRange, "ParseInt(%q,%d): syntax ok, error %v is not a range error", s, base, err)
			check(!(err != nil && !isRange) || i == 0, "ParseInt(%q,%d): non-range error with value %d", s, base, i)
			if syn && len(s) <= 15 && base <= 16 {
				check(err == nil, "ParseInt(%q,%d): short number does not fit: %v", s, base, err)
			}
			if syn && err == nil && s[0] != '-' {
				check(i >= 0, "ParseInt(%q,%d) = %d negative", s, base, i)
			}
			if syn && len(s) == 1 {
				i32, err32 := strconv.ParseInt(s, base, 32)
				check(err32 == nil && int(i32) == digitVal(s[0]), "ParseInt(%q,%d,32)", s, base)
			}
		}
	}
	// ---- strconv.Atoi / Itoa -----------------------------------------------------------------------------------------
	for it := 0; it < 300000; it++ {
		s := randStr(rng, "0123456789+-x ", 22)
		v, err := strconv.Atoi(s)
		allDigits := len(s) > 0
		for k := 0; k < len(s); k++ {
			if !isDigit(s[k]) {
				allDigits = false
			}
		}
		if allDigits {
			check(err == nil || errors.Is(err, strconv.ErrRange), "Atoi(%q): digits only but %v", s, err)
		}
		if allDigits && len(s) <= 18 {
			check(err == nil && v >= 0, "Atoi(%q): %v", s, err)
		}
		if err == nil {
			check(len(s) >= 1, "Atoi(%q) ok on empty", s)
		}
		isRange := errors.Is(err, strconv.ErrRange)
		if isRange {
			check(len(s) >= 19, "Atoi(%q): range error on a short string", s)
			if allDigits {
				check(v == math.MaxInt64, "Atoi(%q): range error value %d", s, v)
			}
		}
		if err != nil && !isRange {
			check(v == 0, "Atoi(%q): error with value %d", s, v)
		}
		if len(s) == 1 && isDigit(s[0]) {
			check(err == nil && v == int(s[0]-'0'), "Atoi(%q)", s)
		}
	}
	for it := 0; it < 300000; it++ {
		i := int(rng.Int63()) >> uint(rng.Intn(63))
		if it%2 == 0 {
			i = -i
		}
		if it%5 == 0 {
			i = rng.Intn(70000)
		}
		r := strconv.Itoa(i)
		v, err := strconv.Atoi(r)
		check(err == nil && v == i, "Atoi(Itoa(%d))", i)
		check(len(r) >= 1, "Itoa(%d) empty", i)
		if i >= 0 {
			for k := 0; k < len(r); k++ {
				check(isDigit(r[k]), "Itoa(%d) non-digit", i)
			}
		} else {
			check(r[0] == '-', "Itoa(%d) no sign", i)
		}
		if i >= 10 {
			check(len(r) >= 2 && r[0] != '0', "Itoa(%d) leading zero", i)
		}
		if 0 <= i && i <= 9 {
			check(len(r) == 1 && r[0] == byte('0'+i), "Itoa(%d)", i)
		}
		if 0 <= i && i <= 65535 {
			check(len(r) <= 5, "Itoa(%d) too long", i)
			h := strconv.FormatUint(uint64(i), 16)
			check(len(h) >= 1 && len(h) <= 4, "FormatUint(%d,16) length", i)
			for k := 0; k < len(h); k++ {
				check(isDigit(h[k]) || ('a' <= h[k] && h[k] <= 'f'), "FormatUint(%d,16) alphabet", i)
			}
			if i > 0 {
				check(h[0] != '0', "FormatUint(%d,16) leading zero", i)
			}
			if i < 16 {
				check(len(h) == 1, "FormatUint(%d,16) one digit", i)
			}
		}
	}
	// ---- unicode / utf8: exhaustive over all code points (and some out-of-range values) ----------------------------------
	for r := rune(-5); r <= 0x110005; r++ {
		l := unicode.ToLower(r)
		switch {
		case 'A' <= r && r <= 'Z':
			check(l == r+32, "ToLower(%#x)", r)
		case 0 <= r && r < 128:
			check(l == r, "ToLower(%#x)", r)
		case r >= 128:
			check(l >= 128 || l == 'i' || l == 'k', "ToLower(%#x) = %#x is ASCII", r, l)
		case r < 0:
			check(l == r, "ToLower(%d)", r)
		}
		if r >= 0 && r <= 0x10FFFF {
			check(0 <= l && l <= 0x10FFFF, "ToLower(%#x) out of range", r)
		}
		check(unicode.Is(unicode.Noncharacter_Code_Point, r) == nonchar(r), "Noncharacter_Code_Point(%#x)", r)
		check(unicode.Is(unicode.Cs, r) == (0xD800 <= r && r <= 0xDFFF), "Cs(%#x)", r)
		want := -1
		if !(r < 0 || r > 0x10FFFF || (0xD800 <= r && r <= 0xDFFF)) {
			switch {
			case r < 0x80:
				want = 1
			case r < 0x800:
				want = 2
			case r < 0x10000:
				want = 3
			default:
				want = 4
			}
		}
		check(utf8.RuneLen(r) == want, "RuneLen(%#x)", r)
		var buf [4]byte
		n := utf8.EncodeRune(buf[:], r)
		s := string(r) // the prelude's utf8(r)
		check(n == len(s) && string(buf[:n]) == s, "EncodeRune(%#x) vs string(r)", r)
		valid := want != -1
		wantLen := 3
		if valid {
			wantLen = want
		}
		check(len(s) == wantLen, "len(string(%#x)) = %d", r, len(s))
		if 0 <= r && r < 128 {
			check(s[0] == byte(r), "string(%#x)[0]", r)
		} else {
			for k := 0; k < len(s); k++ {
				check(s[k] >= 128, "string(%#x) has an ASCII byte", r)
			}
		}
	}
	// ---- strings --------------------------------------------------------------------------------------------------------
	salpha := "ab.&= +%AZ\xc3\xa9\xff/?#:"
	for it := 0; it < 300000; it++ {
		s := randStr(rng, salpha, 12)
		sep := string(salpha[rng.Intn(10)])
		parts := strings.Split(s, sep)
		check(len(parts) >= 1 && len(parts) == strings.Count(s, sep)+1 && len(parts) <= len(s)+1, "Split(%q,%q) count", s, sep)
		check(strings.Join(parts, sep) == s, "Split/Join(%q,%q)", s, sep)
		for _, p := range parts {
			check(!strings.Contains(p, sep), "Split(%q,%q) part contains sep", s, sep)
		}
		two := strings.SplitN(s, sep, 2)
		if len(parts) == 1 {
			check(len(two) == 1 && two[0] == s, "SplitN(%q,%q,2) single", s, sep)
		} else {
			check(len(two) == 2 && two[0] == parts[0] && two[1] == s[len(parts[0])+1:], "SplitN(%q,%q,2)", s, sep)
		}
		cut := randStr(rng, " \t[]ab", 3)
		tr := strings.TrimRight(s, cut)
		hi := len(s)
		for hi > 0 && strings.IndexByte(cut, s[hi-1]) >= 0 {
			hi--
		}
		check(tr == s[:hi], "TrimRight(%q,%q) = %q, bytewise %q", s, cut, tr, s[:hi])
		lo := 0
		for lo < len(s) && strings.IndexByte(cut, s[lo]) >= 0 {
			lo++
		}
		hi2 := len(s)
		for hi2 > lo && strings.IndexByte(cut, s[hi2-1]) >= 0 {
			hi2--
		}
		check(strings.Trim(s, cut) == s[lo:hi2], "Trim(%q,%q)", s, cut)
		ra := strings.ReplaceAll(s, "+", " ")
		check(len(ra) == len(s), "ReplaceAll length")
		for k := 0; k < len(s); k++ {
			w := s[k]
			if w == '+' {
				w = ' '
			}
			check(ra[k] == w, "ReplaceAll(%q)[%d]", s, k)
		}
		lw := strings.ToLower(s)
		check((len(s) == 0) == (len(lw) == 0), "ToLower(%q) emptiness", s)
		if asciiStr(s) {
			check(len(lw) == len(s), "ToLower(%q) length", s)
			for k := 0; k < len(s) && k < len(lw); k++ {
				w := s[k]
				if 'A' <= w && w <= 'Z' {
					w += 32
				}
				check(lw[k] == w, "ToLower(%q)[%d]", s, k)
			}
		}
		if asciiStr(lw) && !strings.ContainsAny(lw, "ik") {
			check(asciiStr(s), "ToLower(%q) = %q is ASCII without i/k but the argument is not ASCII", s, lw)
		}
		check(strings.HasPrefix(s, cut) == (len(cut) <= len(s) && s[:len(cut)] == cut), "HasPrefix")
		check(strings.HasSuffix(s, cut) == (len(cut) <= len(s) && s[len(s)-len(cut):] == cut), "HasSuffix")
	}
	// ---- net/url.PathUnescape on every %XY ----------------------------------------------------------------------------------
	hexv := func(c byte) int {
		switch {
		case isDigit(c):
			return int(c - '0')
		case 'A' <= c && c <= 'F':
			return int(c-'A') + 10
		default:
			return int(c-'a') + 10
		}
	}
	isHex := func(c byte) bool { return isDigit(c) || ('a' <= c && c <= 'f') || ('A' <= c && c <= 'F') }
	for a := 0; a < 256; a++ {
		for b := 0; b < 256; b++ {
			if !isHex(byte(a)) || !isHex(byte(b)) {
				continue
			}
			s := "%" + string([]byte{byte(a), byte(b)})
			r, err := u2.PathUnescape(s)
			check(err == nil && len(r) == 1 && int(r[0]) == 16*hexv(byte(a))+hexv(byte(b)), "PathUnescape(%q)", s)
		}
	}
	for y := 0; y <= 4; y++ {
		check(math.Pow(256, float64(y)) == []float64{1, 256, 65536, 16777216, 4294967296}[y], "Pow(256,%d)", y)
	}
	if failed {
		os.Exit(1)
	}
	fmt.Println("audit_trusted: every sampled clause of trusted/stdlib.contracts held on the real standard library")
}
