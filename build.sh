#!/bin/sh
# setup: build the verifier from the sources in /verif/govc (offline; x/tools v0.29.0 comes from the module cache)
set -e
cd "$(dirname "$0")/govc"
export GOFLAGS=-mod=mod GOPROXY=off GOSUMDB=off GOTOOLCHAIN=local CGO_ENABLED=0
mkdir -p ../bin ../evidence ../replay
go build -o ../bin/govc .
echo "govc built: $(../bin/govc version 2>/dev/null || echo ok)"
