package main

// `govc check -p Cxx`: regenerate every obligation from /repo's working tree, discharge the ones owned by the property,
// compare with the committed baseline and known findings, write evidence, print VIOLATION lines.

import (
	"bufio"
	"crypto/sha1"
	"encoding/hex"
	"encoding/json"
	"flag"
	"fmt"
	"golang.org/x/tools/go/ssa"
	"os"
	"path/filepath"
	"sort"
	"strconv"
	"strings"
	"sync"
	"time"
)

type BaselineEntry struct {
	Key        string   `json:"key"`
	Func       string   `json:"func"`
	Kind       string   `json:"kind"`
	Tags       []string `json:"tags"`
	Text       string   `json:"text"`
	N          int      `json:"n"`
	Discharged bool     `json:"discharged"`
	MaxTimeS   float64  `json:"max_time_s"`
}

type Baseline struct {
	RepoCommit string                    `json:"repo_commit"`
	Entries    map[string]*BaselineEntry `json:"entries"`
}

func hash8(s string) string {
	h := sha1.Sum([]byte(s))
	return hex.EncodeToString(h[:])[:8]
}

var srcCache = map[string][]string{}
var srcMu sync.Mutex

func srcLine(file string, line int) string {
	srcMu.Lock()
	defer srcMu.Unlock()
	ls, ok := srcCache[file]
	if !ok {
		data, err := os.ReadFile(file)
		if err == nil {
			ls = strings.Split(string(data), "\n")
		}
		srcCache[file] = ls
	}
	if line >= 1 && line <= len(ls) {
		return strings.TrimSpace(ls[line-1])
	}
	return ""
}

// clauseKey identifies what an obligation is about independently of ordinals and line numbers.
func clauseKey(o *Obligation) string {
	switch o.Kind {
	case "post", "pre", "inv-init", "inv-pres", "global", "lemma", "cost", "assert", "unwind", "step", "reads":
		k := o.Func + "/" + o.Kind + "/"
		if o.Label != "" {
			k += o.Label + "#"
		}
		return k + hash8(o.Text)
	case "var-dec":
		return o.Func + "/" + o.Kind + "/" + hash8(o.Text)
	}
	return o.Func + "/" + o.Kind + "/" + hash8(srcLine(o.Pos.Filename, o.Pos.Line))
}

func hasTag(o *Obligation, p string) bool {
	for _, t := range o.Tags {
		if t == p {
			return true
		}
	}
	return false
}

type Finding struct {
	Property string
	Clause   string
	Witness  string
	Note     string
}

func loadFindings(path string) ([]Finding, error) {
	f, err := os.Open(path)
	if err != nil {
		if os.IsNotExist(err) {
			return nil, nil
		}
		return nil, err
	}
	defer f.Close()
	var out []Finding
	sc := bufio.NewScanner(f)
	for sc.Scan() {
		line := strings.TrimSpace(sc.Text())
		if !strings.HasPrefix(line, "finding:") {
			continue // comments and "fixed:" lines suppress nothing
		}
		fd := Finding{}
		rest := strings.TrimSpace(strings.TrimPrefix(line, "finding:"))
		for _, kv := range splitKV(rest) {
			switch kv[0] {
			case "property":
				fd.Property = kv[1]
			case "clause":
				fd.Clause = kv[1]
			case "witness":
				fd.Witness = kv[1]
			case "note":
				fd.Note = kv[1]
			}
		}
		out = append(out, fd)
	}
	return out, nil
}

// splitKV parses key=value pairs where values may be double-quoted.
func splitKV(s string) [][2]string {
	var out [][2]string
	i := 0
	for i < len(s) {
		for i < len(s) && s[i] == ' ' {
			i++
		}
		j := strings.IndexByte(s[i:], '=')
		if j < 0 {
			break
		}
		key := s[i : i+j]
		i += j + 1
		var val string
		if i < len(s) && s[i] == '"' {
			k := i + 1
			for k < len(s) && s[k] != '"' {
				if s[k] == '\\' {
					k++
				}
				k++
			}
			v, err := strconv.Unquote(s[i:min(k+1, len(s))])
			if err != nil {
				v = s[i+1 : min(k, len(s))]
			}
			val = v
			i = k + 1
		} else {
			k := strings.IndexByte(s[i:], ' ')
			if k < 0 {
				k = len(s) - i
			}
			val = s[i : i+k]
			i += k
		}
		out = append(out, [2]string{key, val})
	}
	return out
}

func loadBaseline(path string) (*Baseline, error) {
	data, err := os.ReadFile(path)
	if err != nil {
		return nil, err
	}
	b := &Baseline{}
	if err := json.Unmarshal(data, b); err != nil {
		return nil, err
	}
	return b, nil
}

type runResult struct {
	w      *World
	fcs    []*FnCtx
	genErr map[string]error
	wall   float64
}

// runAll generates VCs for every function and discharges the obligations selected by `only`.
func runAll(repo, verif string, timeoutS int, only func(*Obligation) bool, keepScratch string) (*runResult, error) {
	t0 := time.Now()
	w, err := LoadWorld(repo, verif)
	if err != nil {
		return nil, err
	}
	dir := keepScratch
	if dir == "" {
		dir, err = os.MkdirTemp("", "govc")
		if err != nil {
			return nil, err
		}
		defer os.RemoveAll(dir)
	} else {
		os.MkdirAll(dir, 0o755)
	}
	var keys []string
	for k := range w.fnByKey {
		keys = append(keys, k)
	}
	sort.Strings(keys)
	res := &runResult{w: w, genErr: map[string]error{}}
	for _, key := range keys {
		if c, ok := w.cs.Funcs[key]; ok && (c.Trusted || c.Opaque) {
			continue
		}
		if w.inlinedOnly(key) {
			continue // unexported straight-line helper without a contract: verified in context at every call site (inlined)
		}
		fc, err := w.NewFnCtx(key)
		if err != nil {
			res.genErr[key] = err
			continue
		}
		if err := fc.Generate(); err != nil {
			res.genErr[key] = err
			continue
		}
		res.fcs = append(res.fcs, fc)
	}
	propagateTags(w, res.fcs)
	if afterGenerate != nil {
		afterGenerate(res.fcs)
	}
	// contracts that name functions which do not exist: fail closed
	for k, c := range w.cs.Funcs {
		if c.Trusted || strings.HasPrefix(k, "iface:") || strings.HasPrefix(k, "dyn:") {
			continue
		}
		if _, ok := w.fnByKey[k]; !ok {
			// the function was removed or renamed: every obligation it had is gone (reported like an unverifiable function)
			res.genErr[k] = fmt.Errorf("contract for %s (%s:%d) matches no function in the current tree (removed or renamed)", k, shortFile(c.File), c.Line)
		}
	}
	headers := make([]string, len(res.fcs))
	for i, fc := range res.fcs {
		h, err := w.scriptHeader(fc)
		if err != nil {
			return nil, err
		}
		headers[i] = h
	}
	if lfc, lh, err := w.LemmaObligations(); err != nil {
		return nil, err
	} else if len(lfc.obls) > 0 {
		res.fcs = append(res.fcs, lfc)
		headers = append(headers, lh)
	}
	jobs := make(chan struct{}, 16)
	var wg sync.WaitGroup
	errs := make([]error, len(res.fcs))
	for i, fc := range res.fcs {
		i, fc := i, fc
		wg.Add(1)
		go func() {
			defer wg.Done()
			errs[i] = w.Discharge(fc, headers[i], dir, timeoutS, only, jobs)
		}()
	}
	wg.Wait()
	for i, e := range errs {
		if e != nil {
			return nil, fmt.Errorf("%s: %v", res.fcs[i].key, e)
		}
	}
	res.wall = time.Since(t0).Seconds()
	return res, nil
}

func cmdBaseline(args []string) {
	fs := flag.NewFlagSet("baseline", flag.ExitOnError)
	repo := fs.String("repo", "/repo", "repository")
	verif := fs.String("verif", "/verif", "verif dir")
	timeout := fs.Int("timeout", 20, "per-obligation timeout (s)")
	maxTime := fs.Float64("claim-under", 8.0, "only clauses whose slowest obligation discharges under this many seconds are claimed")
	fs.Parse(args)
	// A clause is claimed only if every one of its obligations discharged, under the time limit, in BOTH of two complete runs
	// (a clause that discharges in one run and times out in the next would raise a false alarm on the unchanged tree), and if
	// it is not listed in baseline/never_claim.txt (clauses known to be unstable, with the reason).
	never := map[string]bool{}
	if data, err := os.ReadFile(filepath.Join(*verif, "baseline", "never_claim.txt")); err == nil {
		for _, l := range strings.Split(string(data), "\n") {
			l = strings.TrimSpace(l)
			if l == "" || strings.HasPrefix(l, "#") {
				continue
			}
			never[strings.Fields(l)[0]] = true
		}
	}
	b := &Baseline{Entries: map[string]*BaselineEntry{}}
	var res *runResult
	for k := range never {
		noAssumeKeys[k] = true
	}
	for round := 0; round < 5; round++ {
		// from the second round on, clauses that failed so far are no longer assumed after being asserted: a clause is claimed
		// only if it discharges without resting on an unclaimed one. Rounds continue until one adds no new failure (fixpoint).
		nFailBefore := 0
		for k, e := range b.Entries {
			if !e.Discharged {
				noAssumeKeys[k] = true
				nFailBefore++
			}
		}
		var err error
		res, err = runAll(*repo, *verif, *timeout, func(o *Obligation) bool { return true }, "")
		if err != nil {
			fmt.Println("ERROR", err)
			os.Exit(2)
		}
		seen := map[string]bool{}
		for _, fc := range res.fcs {
			for _, o := range fc.obls {
				if o.Kind == "canary" {
					continue
				}
				k := clauseKey(o)
				e := b.Entries[k]
				if e == nil {
					e = &BaselineEntry{Key: k, Func: o.Func, Kind: o.Kind, Tags: o.Tags, Text: o.Text, Discharged: round == 0 && !never[k]}
					b.Entries[k] = e
				}
				if !seen[k] {
					seen[k] = true
					e.N = 0
				}
				e.N++
				if o.Status != "unsat" || o.TimeS > *maxTime {
					e.Discharged = false
				}
				if o.TimeS > e.MaxTimeS {
					e.MaxTimeS = o.TimeS
				}
			}
		}
		nFail := 0
		for _, e := range b.Entries {
			if !e.Discharged {
				nFail++
			}
		}
		fmt.Printf("baseline round %d: %d clauses not discharged (%d before)\n", round+1, nFail, nFailBefore)
		if round >= 1 && nFail == nFailBefore {
			break
		}
	}
	for k, e := range res.genErr {
		fmt.Printf("GEN-ERROR %s: %v\n", k, e)
	}
	os.MkdirAll(filepath.Join(*verif, "baseline"), 0o755)
	data, _ := json.MarshalIndent(b, "", " ")
	if err := os.WriteFile(filepath.Join(*verif, "baseline", "obligations.json"), data, 0o644); err != nil {
		fmt.Println("ERROR", err)
		os.Exit(2)
	}
	n, d := 0, 0
	for _, e := range b.Entries {
		n++
		if e.Discharged {
			d++
		}
	}
	fmt.Printf("baseline: %d clauses, %d fully discharged (claimed), wall %.1fs\n", n, d, res.wall)
}

type Evidence struct {
	PropertyID  string                 `json:"property_id"`
	Tier        string                 `json:"tier"`
	Seed        int                    `json:"seed"`
	Level       string                 `json:"level"`
	Coverage    map[string]interface{} `json:"coverage"`
	Assumptions []string               `json:"assumptions"`
	WallS       float64                `json:"wall_s"`
	Violations  int                    `json:"violations"`
}

// loadAvg: the 1-minute load average (0 when it cannot be read).
func loadAvg() float64 {
	b, err := os.ReadFile("/proc/loadavg")
	if err != nil {
		return 0
	}
	var l float64
	fmt.Sscanf(string(b), "%f", &l)
	return l
}

func cmdCheck(args []string) {
	fs := flag.NewFlagSet("check", flag.ExitOnError)
	repo := fs.String("repo", "/repo", "repository")
	verif := fs.String("verif", "/verif", "verif dir")
	prop := fs.String("p", "", "property id")
	tier := fs.String("tier", "", "quick|thorough")
	fs.Parse(args)
	if *prop == "" {
		fmt.Println("ERROR missing -p")
		os.Exit(2)
	}
	if *tier == "" {
		*tier = os.Getenv("VERIF_TIER")
	}
	if *tier == "" {
		*tier = "quick"
	}
	seed, _ := strconv.Atoi(os.Getenv("VERIF_SEED"))
	timeout := 20
	if *tier == "thorough" {
		timeout = 60
		graceS = 20
	}
	t0 := time.Now()
	base, err := loadBaseline(filepath.Join(*verif, "baseline", "obligations.json"))
	if err != nil {
		fmt.Println("ERROR cannot read baseline:", err)
		os.Exit(2)
	}
	for k, e := range base.Entries {
		if !e.Discharged {
			noAssumeKeys[k] = true // unclaimed clauses are asserted (thorough tier) but never assumed
		}
	}
	findings, err := loadFindings(filepath.Join(*verif, "known_findings.txt"))
	if err != nil {
		fmt.Println("ERROR", err)
		os.Exit(2)
	}
	// Every obligation of a function that carries an obligation of this property is run: obligations are assumed once
	// asserted, so a failed obligation of another property earlier in the same function would make this property's
	// obligations vacuous.
	var propFuncs map[string]bool
	only := func(o *Obligation) bool {
		if propFuncs != nil && !propFuncs[o.Func] {
			return false
		}
		if o.Kind == "canary" {
			return true
		}
		if propFuncs == nil && !hasTag(o, *prop) {
			return false
		}
		if *tier == "thorough" {
			return true
		}
		// quick: skip clauses that were undecided at baseline (they are not claimed) unless a known finding names them
		k := clauseKey(o)
		for _, fd := range findings {
			if fd.Property == *prop && fd.Clause == k {
				return true
			}
		}
		e := base.Entries[k]
		return e == nil || e.Discharged
	}
	afterGenerate = func(fcs []*FnCtx) {
		propFuncs = map[string]bool{}
		for _, fc := range fcs {
			for _, o := range fc.obls {
				if o.Kind != "canary" && hasTag(o, *prop) {
					propFuncs[fc.key] = true
					break
				}
			}
		}
	}
	res, err := runAll(*repo, *verif, timeout, only, os.Getenv("GOVC_SCRATCH"))
	if err != nil {
		fmt.Println("ERROR", err)
		os.Exit(2)
	}
	// a heavily loaded machine can make dozens of normally instant queries time out at once; in that case the whole run is
	// repeated once after a pause instead of being judged
	{
		nFail := 0
		for _, fc := range res.fcs {
			for _, o := range fc.obls {
				if o.Kind != "canary" && only(o) && o.Status != "unsat" {
					if e, ok := base.Entries[clauseKey(o)]; ok && e.Discharged {
						nFail++
					}
				}
			}
		}
		if nFail > 40 && loadAvg() > 20 {
			fmt.Printf("note: %d claimed obligations undischarged at load %.0f; repeating the run once\n", nFail, loadAvg())
			time.Sleep(30 * time.Second)
			res2, err2 := runAll(*repo, *verif, timeout*2, only, os.Getenv("GOVC_SCRATCH"))
			if err2 == nil {
				res = res2
			}
		}
	}
	exit := 0
	// Second opinion for obligations that were claimed at baseline and did not discharge: under load a solver may time out on
	// a query it normally answers. Re-run those alone with a long timeout before calling anything a violation (a genuine
	// failure stays a failure; it only costs time).
	{
		type retry struct {
			fc  *FnCtx
			o   *Obligation
			hdr string
		}
		var rs []retry
		for _, fc := range res.fcs {
			for _, o := range fc.obls {
				if o.Kind == "canary" || !only(o) || o.Status == "unsat" {
					continue
				}
				if e, ok := base.Entries[clauseKey(o)]; ok && e.Discharged {
					rs = append(rs, retry{fc: fc, o: o})
				}
			}
		}
		if os.Getenv("GOVC_DEBUG_RETRY") != "" {
			for _, r := range rs {
				fmt.Printf("failed before retry: %s %s\n", r.o.Name, r.o.Status)
			}
		}
		// stage 2: up to 40 failing obligations, four at a time (each races four solvers), 45 s each
		// stage 3: what still fails is run strictly one at a time with a long budget (longer when the machine is loaded);
		// bounded in number so that a genuinely broken tree is still reported in reasonable time
		load := loadAvg()
		scale := 1
		if load > 20 {
			scale = 2
		}
		if load > 40 {
			scale = 3
		}
		stage := func(list []retry, par int, budget int, tag string) []retry {
			if len(list) == 0 {
				return nil
			}
			dir, err := os.MkdirTemp("", "govc-retry")
			if err != nil {
				return list
			}
			jobs := make(chan struct{}, 16)
			sem := make(chan struct{}, par)
			var wg sync.WaitGroup
			graceS = budget
			for i := range list {
				r := list[i]
				hdr, err := res.w.scriptHeader(r.fc)
				if err != nil {
					continue
				}
				sub := filepath.Join(dir, fmt.Sprintf("r%d", i))
				os.MkdirAll(sub, 0o755)
				wg.Add(1)
				sem <- struct{}{}
				go func() {
					defer wg.Done()
					defer func() { <-sem }()
					res.w.Discharge(r.fc, hdr, sub, budget, func(x *Obligation) bool { return x == r.o }, jobs)
				}()
			}
			wg.Wait()
			var still []retry
			for _, r := range list {
				if os.Getenv("GOVC_DEBUG_RETRY") != "" {
					fmt.Printf("retry(%s): %s -> %s by %s\n", tag, r.o.Name, r.o.Status, r.o.Solver)
				}
				if r.o.Status != "unsat" {
					still = append(still, r)
				}
			}
			os.RemoveAll(dir)
			return still
		}
		if len(rs) > 0 && len(rs) <= 40 {
			still := stage(rs, 4, 45*scale, "2")
			max3 := 3
			budget3 := 60
			if *tier == "thorough" {
				max3, budget3 = 12, 180
			}
			if len(still) > 0 && len(still) <= max3 {
				stage(still, 1, budget3*scale, "3")
			}
		}
	}
	// functions whose contract could not be applied
	type group struct {
		key     string
		obls    []*Obligation
		claimed bool
		isNew   bool
	}
	groups := map[string]*group{}
	funcs := map[string]bool{}
	byBackend := map[string]int{}
	solverTime := 0.0
	var slowest []*Obligation
	nCanary, canaryBad := 0, 0
	for _, fc := range res.fcs {
		funcFailed := false
		for _, o := range fc.obls {
			if o.Kind != "canary" && only(o) && o.Status != "unsat" {
				funcFailed = true
			}
		}
		for _, o := range fc.obls {
			if !only(o) {
				continue
			}
			if o.Kind == "canary" {
				if funcFailed {
					continue // a failed obligation is assumed afterwards; vacuity behind it is expected
				}
				nCanary++
				if o.Status == "unsat" {
					canaryBad++
					fmt.Printf("ERROR vacuity: canary %s is provable — assumptions of %s are contradictory\n", o.Name, o.Func)
					exit = 2
				}
				continue
			}
			k := clauseKey(o)
			g := groups[k]
			if g == nil {
				g = &group{key: k}
				if e, ok := base.Entries[k]; ok {
					g.claimed = e.Discharged
				} else {
					g.isNew = true
				}
				groups[k] = g
			}
			g.obls = append(g.obls, o)
			funcs[o.Func] = true
			if o.Status == "unsat" {
				byBackend[o.Solver]++
			}
			solverTime += o.TimeS
			slowest = append(slowest, o)
		}
	}
	sort.Slice(slowest, func(i, j int) bool { return slowest[i].TimeS > slowest[j].TimeS })
	var gkeys []string
	for k := range groups {
		gkeys = append(gkeys, k)
	}
	sort.Strings(gkeys)
	nObl, nDis, nUndecided := 0, 0, 0
	violations := 0
	var knownHit []string
	var undecided []string
	var samples []interface{}
	os.MkdirAll(filepath.Join(*verif, "replay"), 0o755)
	for _, k := range gkeys {
		g := groups[k]
		failed := []*Obligation{}
		for _, o := range g.obls {
			if o.Status != "unsat" {
				failed = append(failed, o)
			}
		}
		if !g.claimed && !g.isNew {
			listed := false
			for _, fd := range findings {
				if fd.Property == *prop && fd.Clause == k {
					listed = true
					if len(failed) > 0 {
						knownHit = append(knownHit, k)
						fmt.Printf("KNOWN-FINDING: property=%s %s witness=%q %s\n", *prop, k, fd.Witness, fd.Note)
					} else {
						fmt.Printf("NOTE: finding %s is listed in known_findings.txt but its clause discharges now\n", k)
					}
				}
			}
			if listed {
				continue
			}
			// undecided at baseline: never claimed, never a violation
			nUndecided += len(g.obls)
			if len(failed) > 0 {
				undecided = append(undecided, k)
			}
			continue
		}
		nObl += len(g.obls)
		nDis += len(g.obls) - len(failed)
		if len(samples) < 12 && len(g.obls) > 0 {
			o := g.obls[0]
			samples = append(samples, map[string]interface{}{"obligation": o.Name, "clause": k, "status": o.Status, "solver": o.Solver, "text": truncate(o.Text, 160)})
		}
		if len(failed) == 0 {
			continue
		}
		// known finding?
		isKnown := false
		for _, fd := range findings {
			if fd.Property == *prop && fd.Clause == k {
				isKnown = true
				knownHit = append(knownHit, k)
				fmt.Printf("KNOWN-FINDING: property=%s %s witness=%q %s\n", *prop, k, fd.Witness, fd.Note)
			}
		}
		if isKnown {
			nObl -= len(failed)
			continue
		}
		for _, o := range failed {
			violations++
			rp := filepath.Join(*verif, "replay", fmt.Sprintf("%s-%s.json", *prop, sanitizeFile(o.Name)))
			rec := map[string]interface{}{
				"property": *prop, "obligation": o.Name, "clause": k, "kind": o.Kind, "text": o.Text,
				"file": o.Pos.Filename, "line": o.Pos.Line, "source": srcLine(o.Pos.Filename, o.Pos.Line),
				"solver_status": o.Status, "solver": o.Solver, "solver_output": o.Output,
				"failing_input": nil,
				"note":          "obligation was discharged on the unchanged tree (baseline) and is not discharged now; no concrete failing input was derived",
			}
			if g.isNew {
				rec["note"] = "obligation generated from source text that is not in the baseline (changed code) and it does not discharge; no concrete failing input was derived"
			}
			data, _ := json.MarshalIndent(rec, "", " ")
			os.WriteFile(rp, data, 0o644)
			fmt.Printf("VIOLATION property=%s replay=%s obligation=%s at %s:%d (%s) no-failing-input-found\n", *prop, rp, o.Name, shortFile(o.Pos.Filename), o.Pos.Line, truncate(o.Text, 120))
			if exit == 0 {
				exit = 1
			}
		}
	}
	// A function whose obligations can no longer be generated (its new body is outside the verifier's reach, or a contract
	// clause no longer type-checks against it) has lost every obligation that was discharged on the unchanged tree. That is
	// reported as a violation of the properties the function supports, without a failing input.
	support := supportTagsAll(res.w)
	var gkeys2 []string
	for k := range res.genErr {
		gkeys2 = append(gkeys2, k)
	}
	sort.Strings(gkeys2)
	for _, k := range gkeys2 {
		e := res.genErr[k]
		sup := support[k]
		inBase := false
		for _, be := range base.Entries {
			if be.Func == k && be.Discharged {
				for _, t := range be.Tags {
					if t == *prop {
						inBase = true
					}
				}
			}
		}
		// C02 (safety) and C14 (strict write frame of every function: nothing pre-existing, no package variable is written)
		// are claimed for every function of the code base, so a function that can no longer be verified loses both
		if !(sup[*prop] || inBase || *prop == "C02" || *prop == "C14") {
			continue
		}
		isKnown := false
		for _, fd := range findings {
			if fd.Property == *prop && fd.Clause == k+"/*" {
				isKnown = true
				knownHit = append(knownHit, fd.Clause)
				fmt.Printf("KNOWN-FINDING: property=%s %s witness=%q %s\n", *prop, fd.Clause, fd.Witness, fd.Note)
			}
		}
		if isKnown {
			continue
		}
		violations++
		rp := filepath.Join(*verif, "replay", fmt.Sprintf("%s-%s.json", *prop, sanitizeFile(k+"_unverifiable")))
		rec := map[string]interface{}{"property": *prop, "obligation": k + "/*", "clause": k + "/*", "kind": "unverifiable",
			"solver_status": "not-generated", "reason": e.Error(), "failing_input": nil,
			"note": "the function's obligations were discharged on the unchanged tree; its current body cannot be brought under its contract (see reason), so none of them is discharged now; no concrete failing input was derived"}
		data, _ := json.MarshalIndent(rec, "", " ")
		os.WriteFile(rp, data, 0o644)
		fmt.Printf("VIOLATION property=%s replay=%s obligation=%s/* (%s) no-failing-input-found\n", *prop, rp, k, truncate(e.Error(), 160))
		if exit == 0 {
			exit = 1
		}
	}
	if nObl == 0 && exit == 0 {
		fmt.Printf("ERROR no obligations are claimed for %s (vacuous run)\n", *prop)
		exit = 2
	}
	// evidence
	var fl []string
	for f := range funcs {
		fl = append(fl, f)
	}
	sort.Strings(fl)
	var slow []interface{}
	for i := 0; i < len(slowest) && i < 5; i++ {
		slow = append(slow, map[string]interface{}{"obligation": slowest[i].Name, "time_s": round3(slowest[i].TimeS), "solver": slowest[i].Solver})
	}
	trusted := trustedBase(res.w)
	level := "proof"
	ev := &Evidence{PropertyID: *prop, Tier: *tier, Seed: seed, Level: level, WallS: round3(time.Since(t0).Seconds()), Violations: violations,
		Assumptions: assumptionsFor(*prop, res.w),
		Coverage: map[string]interface{}{
			"obligations":              nObl,
			"discharged":               nDis,
			"checker_cmd":              fmt.Sprintf("/verif/bin/govc check -p %s -tier %s  (go/ssa VC generator -> z3 5.1.0 / z3 4.8.12 / cvc5 1.0.x portfolio)", *prop, *tier),
			"trusted_base":             trusted,
			"functions_under_contract": fl,
			"by_backend":               byBackend,
			"solver_time_s":            round3(solverTime),
			"slowest":                  slow,
			"undecided_not_claimed":    undecided,
			"undecided_obligations":    nUndecided,
			"known_findings":           knownHit,
			"canaries":                 nCanary,
			"canaries_vacuous":         canaryBad,
			"samples":                  samples,
			"baseline_clauses_claimed": countClaimed(base, *prop),
			"explanation":              "every obligation tagged with this property was regenerated from /repo's working tree (go/ssa NaiveForm, -tags verif) and sent to the solver portfolio; 'obligations' counts those belonging to clauses claimed in baseline/obligations.json, 'undecided_not_claimed' lists clauses that never discharged and are not part of the claim",
		}}
	if be := boundedEvidence[*prop]; be != nil {
		ev.Coverage["bounded"] = be
	}
	if *tier == "thorough" {
		// consistency probe of the axiom base (prelude + spec definitions + axioms of uninterpreted functions + lemmas), all
		// solvers incl. MBQI, 90 s: "unsat" would make every proof vacuous
		pr, bad := probeWorld(res.w, 90)
		ev.Coverage["consistency_probe"] = pr
		if bad {
			fmt.Println("ERROR the axiom base (prelude + specs + lemmas) is unsatisfiable: every proof would be vacuous")
			exit = 2
		}
	}
	os.MkdirAll(filepath.Join(*verif, "evidence"), 0o755)
	data, _ := json.MarshalIndent(ev, "", " ")
	if err := os.WriteFile(filepath.Join(*verif, "evidence", *prop+".json"), data, 0o644); err != nil {
		fmt.Println("ERROR", err)
		os.Exit(2)
	}
	fmt.Printf("%s: %d/%d claimed obligations discharged (%d undecided, not claimed), %d known findings, %d violations, %.1fs\n",
		*prop, nDis, nObl, nUndecided, len(knownHit), violations, time.Since(t0).Seconds())
	os.Exit(exit)
}

var boundedEvidence = map[string]interface{}{}

// afterGenerate, when set, is called by runAll once all obligations exist and are tagged (before any is discharged).
var afterGenerate func(fcs []*FnCtx)

func round3(f float64) float64 { return float64(int(f*1000+0.5)) / 1000 }

func countClaimed(b *Baseline, prop string) int {
	n := 0
	for _, e := range b.Entries {
		if !e.Discharged {
			continue
		}
		for _, t := range e.Tags {
			if t == prop {
				n++
				break
			}
		}
	}
	return n
}

func canaryServes(o *Obligation, prop string) bool { return true }

func trustedBase(w *World) []string {
	var out []string
	for _, k := range w.cs.SortedKeys() {
		c := w.cs.Funcs[k]
		if (c.Trusted || c.Opaque) && c.Used {
			kind := "assumed contract"
			if c.Opaque {
				kind = "in-module function with assumed contract (body not verified)"
			}
			out = append(out, fmt.Sprintf("%s: %s (%s:%d)", kind, k, shortFile(c.File), c.Line))
		}
	}
	out = append(out,
		"go/packages + go/ssa (x/tools v0.29.0) give the semantics of the Go source; govc's translation of SSA instructions to SMT",
		"soundness of z3 5.1.0, z3 4.8.12, cvc5 1.0.x (an obligation is accepted when any one answers unsat)",
		"string/slice lengths bounded by 2^48; int overflow is an obligation (kind ovf), not an assumption",
		"calls are sequential; user callbacks (host hooks, Iterate callback, foreign ParserOption) satisfy trusted/callbacks.contracts",
		"spec functions in /verif/spec are the oracle: transcribed from the URL Standard, not proved adequate",
	)
	return out
}

func assumptionsFor(prop string, w *World) []string {
	out := []string{
		"assumed contracts on dependencies are listed under coverage.trusted_base (generated from /verif/trusted/*.contracts that were actually used)",
		"induction over operation histories (every operation requires/ensures the same invariant) is an argument outside the solver",
		"go/ssa's reading of the source (NaiveForm) and govc's translation of SSA instructions, calls, frames and loops into verification conditions are trusted; so are z3 5.1.0, z3 4.8.12 and cvc5 1.0.x when they answer unsat",
		"integers are mathematical in the solver; every Go integer operation that could overflow its type carries an overflow obligation (not an assumption); strings entering a function are shorter than 2^40 bytes and slices shorter than 2^48 elements",
		"uninterpreted spec functions and their axioms (/verif/spec/*.spec, /verif/trusted/*.contracts: specIDNA, specAtoiVal, specItoa, specParseIntVal, specHexStr, specEncRune, specToLower, specSplit*, least-witness functions specSchemeEnd/specFirstHash/specFirstQH/specHostEnd) are assumed consistent; `govc probe` (thorough tier) looks for a contradiction among them",
		"the spec functions are a hand transcription of the WHATWG URL Standard (24 May 2023) and of the documented behaviour of the library's options",
		"user callbacks (pre/post parse host functions, Iterate callbacks) terminate, do not panic and write nothing reachable from the URL (callbacks.contracts)",
		"excluded by preconditions: nil arguments to exported functions, nil ParserOption values, hand-built PercentEncodeSet{} / SearchParams{} literals, detached SearchParams clones, stack or memory exhaustion",
		"a violation is reported without a replayed failing input (no replay harness): the evidence is the named obligation that was discharged at baseline and is not discharged now",
	}
	switch prop {
	case "C14":
		out = append(out, "the step from strict write frames to freedom from data races under all schedules is a meta-argument (Go memory model), not a solver obligation; goroutine schedules are not explored",
			"dependencies are read-safe for concurrent use (bitset.Test, idna.Profile.ToASCII, charmap, regexp, concurrent map reads)")
	case "C10":
		out = append(out, "client code does not assign to the package's exported table variables")
	case "C15":
		out = append(out, "the read-frame obligations (kind 'reads') are decided by the generator's static walk over the SSA of the function and its static callees, not by the solver; calls through interfaces and function values are assumed not to read the unexported diagnostics fields",
			"the step from 'the diagnostics options are read only by the three error handlers, whose return value is proved independent of reportValidationErrors' to the two-run (relational) statement of the property is a non-interference argument, not a solver obligation")
	case "C01", "C06":
		out = append(out, "the claim is partial (see MANIFEST level text): component slices, the state-transition relation and per-state step clauses are proved; their composition into 'the result equals the standard's result for every input' is not")
	}
	return out
}

// propagateTags: an obligation generated from an untagged clause (helper postconditions, loop invariants, call-site
// preconditions) supports every property that the function or one of its transitive callers carries a tagged clause for.
// Without this a change that breaks a helper fact would only ever show up under C02.
// supportTagsAll computes, for every function of the verified packages, the properties it supports (see propagateTags).
func supportTagsAll(w *World) map[string]map[string]bool {
	return computeSupport(w)
}

func propagateTags(w *World, fcs []*FnCtx) {
	support := computeSupport(w)
	applySupport(support, fcs)
}

func computeSupport(w *World) map[string]map[string]bool {
	own := map[string]map[string]bool{}
	addTags := func(key string, tags []string) {
		if own[key] == nil {
			own[key] = map[string]bool{}
		}
		for _, t := range tags {
			own[key][t] = true
		}
	}
	for key, c := range w.cs.Funcs {
		for _, cl := range c.Requires {
			addTags(key, cl.Tags)
		}
		for _, cl := range c.Ensures {
			addTags(key, cl.Tags)
		}
		for _, lc := range c.Loops {
			for _, cl := range lc.Invariants {
				addTags(key, cl.Tags)
			}
		}
	}
	// callers: static callees inside the verified packages
	callers := map[string]map[string]bool{}
	for key, fn := range w.fnByKey {
		for _, b := range fn.Blocks {
			for _, in := range b.Instrs {
				var callee *ssa.Function
				switch x := in.(type) {
				case ssa.CallInstruction:
					callee = x.Common().StaticCallee()
				case *ssa.MakeClosure:
					callee, _ = x.Fn.(*ssa.Function)
				}
				if callee == nil {
					continue
				}
				ck := shortFuncKey(callee)
				if w.fnByKey[ck] != callee {
					continue
				}
				if callers[ck] == nil {
					callers[ck] = map[string]bool{}
				}
				callers[ck][key] = true
			}
		}
	}
	memo := map[string]map[string]bool{}
	var support func(key string, seen map[string]bool) map[string]bool
	support = func(key string, seen map[string]bool) map[string]bool {
		if m, ok := memo[key]; ok {
			return m
		}
		out := map[string]bool{}
		if seen[key] {
			return out
		}
		seen[key] = true
		for t := range own[key] {
			out[t] = true
		}
		for c := range callers[key] {
			for t := range support(c, seen) {
				out[t] = true
			}
		}
		delete(seen, key)
		memo[key] = out
		return out
	}
	out := map[string]map[string]bool{}
	for key := range w.fnByKey {
		out[key] = support(key, map[string]bool{})
	}
	return out
}

func applySupport(support map[string]map[string]bool, fcs []*FnCtx) {
	for _, fc := range fcs {
		sup := support[fc.key]
		var supList []string
		for t := range sup {
			supList = append(supList, t)
		}
		sort.Strings(supList)
		for _, o := range fc.obls {
			switch o.Kind {
			case "post", "pre", "inv-init", "inv-pres", "global":
				explicit := false
				for _, t := range o.Tags {
					if t != "C02" {
						explicit = true
					}
				}
				if explicit && o.Kind != "pre" {
					continue
				}
				have := map[string]bool{}
				for _, t := range o.Tags {
					have[t] = true
				}
				tags := append([]string{}, o.Tags...)
				if !have["C02"] {
					tags = append(tags, "C02")
					have["C02"] = true
				}
				for _, t := range supList {
					if !have[t] {
						tags = append(tags, t)
					}
				}
				o.Tags = tags
			}
		}
	}
}
