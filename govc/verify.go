package main

// Per-function driver: entry assumptions, block ordering, merges, loops, returns.

import (
	"fmt"
	"go/ast"
	"go/token"
	"go/types"
	"os"
	"sort"
	"strconv"
	"strings"

	"golang.org/x/tools/go/ssa"
)

func (w *World) NewFnCtx(key string) (*FnCtx, error) {
	fn, ok := w.fnByKey[key]
	if !ok {
		return nil, fmt.Errorf("contract-not-applicable: no function %q in the loaded packages", key)
	}
	fc := &FnCtx{w: w, fn: fn, key: key, vals: map[ssa.Value]Val{}, outs: map[*ssa.BasicBlock][]edgeOut{},
		modPreds: map[string][]modPred{}, kindCnt: map[string]int{}, paramEV: map[string]EV{}, loops: map[*ssa.BasicBlock]*loopInfo{}, blockIns: map[*ssa.BasicBlock][]Term{}, blockVias: map[*ssa.BasicBlock][]string{}, blockFroms: map[*ssa.BasicBlock][]*ssa.BasicBlock{}, ancCache: map[*ssa.BasicBlock]map[int]bool{}, dropped: map[*Clause]bool{}}
	if fn.Pkg != nil {
		fc.pkg = fn.Pkg.Pkg
	} else if fn.Parent() != nil {
		p := fn.Parent()
		for p.Parent() != nil {
			p = p.Parent()
		}
		fc.pkg = p.Pkg.Pkg
	}
	fc.contract = w.cs.Funcs[key]
	if fc.contract == nil {
		fc.contract = defaultContract
	} else {
		fc.contract.Used = true
	}
	fc.isInit = fn.Name() == "init" && fn.Synthetic != ""
	return fc, nil
}

func (fc *FnCtx) Generate() (err error) {
	defer func() {
		if r := recover(); r != nil {
			switch e := r.(type) {
			case unsupportedErr:
				where := ""
				if fc.curInstr != nil {
					where = fmt.Sprintf(" at %s [%s]", fc.pos(), fc.curInstr)
				}
				err = fmt.Errorf("unsupported: %s%s", string(e), where)
			case evalErr:
				err = fmt.Errorf("contract error in %s: %s", fc.key, string(e))
			default:
				panic(r)
			}
		}
	}()
	fn := fc.fn
	fc.alloc0 = "alloc!0"
	fc.decls = append(fc.decls, "(declare-const alloc!0 Int)")
	fc.st = &State{heap: map[string]Term{}, alloc: fc.alloc0, locals: map[*ssa.Alloc]Val{}, iters: map[string]Term{}}
	fc.reach = "true"
	fc.assumeRaw(app("<", "0", fc.alloc0))
	// parameters
	bindParam := func(name string, v ssa.Value, t types.Type) {
		val := fc.havocVal("p_"+sanitizeName(name), t)
		fc.vals[v] = val
		if tv, ok := val.(string); ok {
			s, _ := sortOf(t)
			if name != "" && name != "_" {
				fc.paramEV[name] = EV{tv, s, t}
			}
		}
	}
	for _, p := range fn.Params {
		bindParam(p.Name(), p, p.Type())
	}
	fc.entry = fc.st.clone()
	for _, fv := range fn.FreeVars {
		// pointer to the captured variable's cell
		val := fc.havocVal("fv_"+sanitizeName(fv.Name()), fv.Type())
		fc.vals[fv] = val
		ref := val.(string)
		et := fv.Type().(*types.Pointer).Elem()
		if s, ok := sortOf(et); ok {
			key, _ := fc.w.boxKey(et)
			fc.paramEV[fv.Name()] = EV{sel(fc.entry.Heap(key), ref), s, et}
			fc.assume(not(eq(ref, "0")))
		}
	}
	// named results
	if fn.Signature.Results() != nil {
		for i := 0; i < fn.Signature.Results().Len(); i++ {
			fc.resultNames = append(fc.resultNames, fn.Signature.Results().At(i).Name())
		}
	}
	env0 := fc.entryEnv()
	// global invariants (tables) are assumed at entry of every function except the initialiser that establishes them
	{
		for _, g := range fc.w.cs.Globals {
			if fc.isInit && (g.pkgName() == fc.pkg.Name() || g.pkgName() == "canonicalizer") {
				continue // established by this initialiser (or by one that runs later)
			}
			if fc.w.initPhase(fc.fn, g.pkgName()) {
				continue // this function runs while that package is still being initialised
			}
			gp := fc.w.typePkgs[g.pkgName()]
			if gp == nil {
				gp = fc.w.typePkgs["url"]
			}
			ge := &Env{w: fc.w, pkg: gp, vars: map[string]EV{}, st: fc.entry, facts: &fc.facts}
			t, err := ge.EvalBool(g.Expr)
			if err != nil {
				return fmt.Errorf("global invariant %s: %v", g.Name, err)
			}
			fc.assumeRaw(t)
		}
	}
	if fc.isInit {
		// the package initialiser runs exactly once, with its guard variable still false
		gk := "G_" + fc.pkg.Name() + ".initSguard"
		fc.w.regHeap(gk, SBool)
		fc.assumeRaw(not(gk + "!0"))
	}
	for _, r := range fc.contract.Requires {
		t, err := env0.EvalBool(r.Expr)
		if err != nil {
			return fmt.Errorf("%s:%d: %v", r.File, r.Line, err)
		}
		fc.assumeRaw(t)
	}
	fc.flushFacts()
	fc.canary("entry", "false", "precondition and global invariants of "+fc.key+" are satisfiable")
	me, err2 := env0.modEntries(fc.contract.Modifies)
	if err2 != nil {
		return fmt.Errorf("modifies of %s: %v", fc.key, err2)
	}
	for k, es := range me {
		for _, e := range es {
			fc.modPreds[k] = append(fc.modPreds[k], e.pred)
		}
	}
	if err := fc.findLoops(); err != nil {
		return err
	}
	// block order: reverse postorder ignoring back edges
	order := fc.rpo()
	inUnrolled := map[*ssa.BasicBlock]*loopInfo{}
	for _, li := range fc.loopList {
		if li.lc.Unroll > 0 {
			for b := range li.blocks {
				inUnrolled[b] = li
			}
		}
	}
	for _, b := range order {
		if li, ok := inUnrolled[b]; ok {
			if b == li.head {
				fc.unrollLoop(li, order)
			}
			continue
		}
		fc.block(b)
	}
	fc.reach = "true"
	// read frames (`noreads`): decided by a static walk over the SSA of the function and of everything it calls
	if fc.contract != nil {
		for _, nr := range fc.contract.NoReads {
			forbid := map[string]bool{}
			for _, k := range nr.Keys {
				forbid[k] = true
			}
			where := fc.w.forbiddenRead(fc.fn, forbid, nr.Except, map[*ssa.Function]bool{})
			goal := Term("(= 0 0)")
			text := "noreads " + nr.Text + " (static read-set walk over the SSA of the function and its callees)"
			if where != "" {
				goal = "(= 0 1)"
				text += ": " + where
			}
			fc.curInstr = nil
			tags := append([]string{"C02"}, nr.Tags...)
			fc.obligeNoAssumeRaw("reads", goal, text, tags, nr.Label)
		}
	}
	fc.canary("returns", not(or(fc.returnReach...)), "some return of "+fc.key+" is reachable under the assumptions")
	return nil
}

// forbiddenRead returns a description of the first load of a forbidden heap key in fn or in a function it (transitively,
// statically) calls, skipping the excepted functions; "" when there is none. Anonymous functions created in a body are walked
// with it. Calls through interfaces and function values cannot be resolved here: their targets are user callbacks or trusted
// library code, assumed not to touch the unexported fields concerned (recorded in the clause text of the contract).
func (w *World) forbiddenRead(fn *ssa.Function, forbid, except map[string]bool, seen map[*ssa.Function]bool) string {
	if fn == nil || seen[fn] || fn.Blocks == nil {
		return ""
	}
	seen[fn] = true
	for _, b := range fn.Blocks {
		for _, in := range b.Instrs {
			switch x := in.(type) {
			case *ssa.UnOp:
				if x.Op == token.MUL {
					ks := map[string]bool{}
					w.keysOfStoreAddr(x.X, ks)
					for k := range ks {
						if forbid[k] {
							pos := w.fset.Position(x.Pos())
							return fmt.Sprintf("%s loads %s at %s:%d", shortFuncKey(fn), k, shortFile(pos.Filename), pos.Line)
						}
					}
				}
			case *ssa.MakeClosure:
				if f, ok := x.Fn.(*ssa.Function); ok {
					if r := w.forbiddenRead(f, forbid, except, seen); r != "" {
						return r
					}
				}
			case ssa.CallInstruction:
				c := x.Common()
				if callee := c.StaticCallee(); callee != nil {
					if except[shortFuncKey(callee)] {
						continue
					}
					if r := w.forbiddenRead(callee, forbid, except, seen); r != "" {
						return shortFuncKey(fn) + " -> " + r
					}
				}
			}
		}
	}
	return ""
}

// canary records a goal that must NOT be provable (vacuity guard). It is never assumed.
func (fc *FnCtx) canary(label string, goal Term, text string) {
	fc.kindCnt["canary"]++
	o := &Obligation{Name: fmt.Sprintf("%s/canary/%d/%s", fc.key, fc.kindCnt["canary"], label), Func: fc.key, Kind: "canary", Label: label,
		Goal: implies(fc.reach, goal), LogLen: len(fc.log), Pos: fc.w.fset.Position(fc.fn.Pos()), Text: text}
	fc.obls = append(fc.obls, o)
}

func sanitizeName(n string) string {
	if n == "" || n == "_" {
		return "anon"
	}
	return strings.NewReplacer("$", "S", "#", "H").Replace(n)
}

func (fc *FnCtx) isBackEdge(from, to *ssa.BasicBlock) bool {
	return to.Dominates(from)
}

func (fc *FnCtx) rpo() []*ssa.BasicBlock {
	seen := map[*ssa.BasicBlock]bool{}
	var post []*ssa.BasicBlock
	var dfs func(b *ssa.BasicBlock)
	dfs = func(b *ssa.BasicBlock) {
		seen[b] = true
		for _, s := range b.Succs {
			if fc.isBackEdge(b, s) || seen[s] {
				continue
			}
			dfs(s)
		}
		post = append(post, b)
	}
	dfs(fc.fn.Blocks[0])
	for i, j := 0, len(post)-1; i < j; i, j = i+1, j-1 {
		post[i], post[j] = post[j], post[i]
	}
	return post
}

// ---------------------------------------------------------------------------------------------
// loops

func (fc *FnCtx) findLoops() error {
	fn := fc.fn
	heads := map[*ssa.BasicBlock]*loopInfo{}
	for _, b := range fn.Blocks {
		for _, s := range b.Succs {
			if fc.isBackEdge(b, s) {
				li := heads[s]
				if li == nil {
					li = &loopInfo{head: s, blocks: map[*ssa.BasicBlock]bool{s: true}}
					heads[s] = li
				}
				// natural loop: nodes that reach b without passing through s
				var stack []*ssa.BasicBlock
				if !li.blocks[b] {
					li.blocks[b] = true
					stack = append(stack, b)
				}
				for len(stack) > 0 {
					n := stack[len(stack)-1]
					stack = stack[:len(stack)-1]
					for _, p := range n.Preds {
						if !li.blocks[p] {
							li.blocks[p] = true
							stack = append(stack, p)
						}
					}
				}
			}
		}
	}
	var list []*loopInfo
	for _, li := range heads {
		list = append(list, li)
	}
	sort.Slice(list, func(i, j int) bool { return list[i].head.Index < list[j].head.Index })
	var stmts []ast.Node
	if syn := fn.Syntax(); syn != nil {
		stmts = loopStmts(syn)
	}
	if fn.Synthetic == "" && len(stmts) != len(list) {
		return fmt.Errorf("contract-not-applicable: %s has %d loop statements but %d natural loops in SSA", fc.key, len(stmts), len(list))
	}
	for i, li := range list {
		li.ordinal = i + 1
		li.lc = fc.contract.Loops[li.ordinal]
		if li.lc == nil {
			li.lc = &LoopContract{}
		}
		// hidden range state
		for _, in := range li.head.Instrs {
			if u, ok := in.(*ssa.UnOp); ok && u.Op == token.MUL {
				if a, ok := u.X.(*ssa.Alloc); ok && a.Comment == "rangeindex" {
					li.hiddenIdx = a
				}
				break
			}
			if n, ok := in.(*ssa.Next); ok {
				if r, ok := n.Iter.(*ssa.Range); ok {
					li.iterID = r.Name() + "@" + strconv.Itoa(r.Block().Index)
				}
				break
			}
			if _, ok := in.(*ssa.DebugRef); !ok {
				break
			}
		}
		fc.loops[li.head] = li
	}
	for n := range fc.contract.Loops {
		if n < 1 || n > len(list) {
			// The code no longer has this loop (e.g. it was replaced by a builtin). The clauses for it are dropped and the
			// function's interface clauses (requires/ensures/modifies) still judge the new body.
			fc.w.warnings = append(fc.w.warnings, fmt.Sprintf("%s: contract names loop %d but the function has %d loops; loop clauses ignored", fc.key, n, len(list)))
		}
	}
	fc.loopList = list
	return nil
}

// loopLookup resolves names for loop-invariant expressions at state st.
func (fc *FnCtx) loopLookup(st *State, li *loopInfo) func(string) (EV, bool) {
	at := token.NoPos
	// position of the loop statement: use the head block's first positioned instruction
	for _, in := range li.head.Instrs {
		if in.Pos().IsValid() {
			at = in.Pos()
			break
		}
	}
	if at == token.NoPos {
		for b := range li.blocks {
			for _, in := range b.Instrs {
				if in.Pos().IsValid() && (at == token.NoPos || in.Pos() < at) {
					at = in.Pos()
				}
			}
		}
	}
	base := fc.localLookup(st, at)
	return func(name string) (EV, bool) {
		if name == "$n" && li.iterID != "" {
			// length of the string being ranged over
			for _, in := range li.head.Instrs {
				if n, ok := in.(*ssa.Next); ok {
					if it, ok := fc.vals[n.Iter].(IterVal); ok {
						return EV{app("slen", it.s), SInt, types.Typ[types.Int]}, true
					}
				}
			}
			return EV{}, false
		}
		if strings.HasPrefix(name, "$i") {
			target := li
			if len(name) > 2 {
				n, err := strconv.Atoi(name[2:])
				if err != nil || n < 1 || n > len(fc.loopList) {
					return EV{}, false
				}
				target = fc.loopList[n-1]
			}
			if target.hiddenIdx != nil {
				v, ok := st.locals[target.hiddenIdx].(string)
				if !ok {
					return EV{}, false
				}
				return EV{app("+", v, "1"), SInt, types.Typ[types.Int]}, true
			}
			if target.iterID != "" {
				if p, ok := st.iters[target.iterID]; ok {
					return EV{p, SInt, types.Typ[types.Int]}, true
				}
			}
			return EV{}, false
		}
		if ev, ok := base(name); ok {
			return ev, true
		}
		// parameters never re-assigned have no distinct cell value problem: fall back to entry value
		if ev, ok := fc.paramEV[name]; ok {
			return ev, true
		}
		return EV{}, false
	}
}

func (fc *FnCtx) loopEnv(st *State, li *loopInfo) *Env {
	e := fc.envAt(st, fc.entryEnv(), fc.loopLookup(st, li))
	e.allocL = li.allocIn
	if li.inState != nil && st != li.inState {
		pe := fc.envAt(li.inState, fc.entryEnv(), fc.loopLookup(li.inState, li))
		pe.allocL = li.allocIn
		e.preEnv = pe
	} else {
		e.preEnv = e
	}
	return e
}

// loopWrites: statically, which state components may change in the loop body.
func (fc *FnCtx) loopWrites(li *loopInfo) (keys map[string]bool, locals map[*ssa.Alloc]bool, iters map[string]bool, allocates bool) {
	keys = map[string]bool{}
	locals = map[*ssa.Alloc]bool{}
	iters = map[string]bool{}
	for b := range li.blocks {
		for _, in := range b.Instrs {
			fc.w.instrWrites(in, keys)
			switch x := in.(type) {
			case *ssa.Store:
				root := x.Addr
				for {
					if fa, ok := root.(*ssa.FieldAddr); ok {
						root = fa.X
						continue
					}
					break
				}
				if a, ok := root.(*ssa.Alloc); ok && !a.Heap {
					locals[a] = true
				}
			case *ssa.Alloc:
				if !x.Heap {
					locals[x] = true
				}
				allocates = true
			case *ssa.Next:
				if r, ok := x.Iter.(*ssa.Range); ok {
					iters[r.Name()+"@"+strconv.Itoa(r.Block().Index)] = true
				}
			case *ssa.Range:
				iters[x.Name()+"@"+strconv.Itoa(x.Block().Index)] = true
			case *ssa.Call, *ssa.MakeSlice, *ssa.MakeClosure, *ssa.MakeMap, *ssa.MakeInterface, *ssa.Convert:
				allocates = true
			}
		}
	}
	return
}

func (fc *FnCtx) havocLike(prefix string, v Val, t types.Type) Val {
	return fc.havocVal(prefix, t)
}

func (fc *FnCtx) loopHead(li *loopInfo, in *State, inReach Term) {
	li.inState = in
	li.inReach = inReach
	li.allocIn = in.alloc
	// inv-init
	fc.st = in.clone()
	fc.reach = inReach
	fc.curInstr = li.head.Instrs[0]
	envIn := fc.loopEnv(fc.st, li)
	invs := fc.allInvariants(li)
	for _, inv := range invs {
		t, err := envIn.EvalBool(inv.Expr)
		if err != nil {
			// the body no longer has the shape the invariant talks about (renamed or retyped local): drop the clause;
			// the interface clauses still judge the function
			fc.w.warnings = append(fc.w.warnings, fmt.Sprintf("%s:%d: loop %d invariant not applicable: %v", inv.File, inv.Line, li.ordinal, err))
			fc.dropped[inv] = true
			continue
		}
		tags := append([]string{"C02"}, inv.Tags...)
		fc.obligeNoAssume("inv-init", t, fmt.Sprintf("loop %d invariant holds on entry: %s", li.ordinal, inv.Text), tags, inv.Label)
	}
	// loop-level modifies, evaluated at loop entry
	if li.lc.Modifies != nil {
		me, err := envIn.modEntries([]*Clause{li.lc.Modifies})
		if err != nil {
			panic(evalErr(fmt.Sprintf("loop %d modifies: %v", li.ordinal, err)))
		}
		li.modPreds = map[string][]modPred{}
		for k, es := range me {
			for _, e := range es {
				li.modPreds[k] = append(li.modPreds[k], e.pred)
			}
		}
	}
	// havoc
	keys, locals, iters, _ := fc.loopWrites(li)
	hs := in.clone()
	fc.st = hs
	rH := fc.fresh("r_loop"+strconv.Itoa(li.ordinal), SBool)
	fc.assumeRaw(implies(rH, inReach))
	fc.reach = rH
	na := fc.fresh("alloc", SInt)
	fc.assumeRaw(app("<=", in.alloc, na))
	hs.alloc = na
	for _, k := range sortedKeys(keys) {
		srt := fc.w.heapSorts[k]
		old := in.Heap(k)
		nw := fc.fresh(sanitize(k), srt)
		hs.heap[k] = nw
		if !strings.HasPrefix(srt, "(Array") {
			if len(fc.modPreds[k]) == 0 && !fc.isInit {
				fc.assumeRaw(eq(nw, k+"!0"))
			}
			if li.modPreds != nil && len(li.modPreds[k]) == 0 {
				fc.assumeRaw(eq(nw, old))
			}
			continue
		}
		if !fc.isInit {
			var inMods []Term
			for _, p := range fc.modPreds[k] {
				inMods = append(inMods, p("o!h"))
			}
			cond := and(not(app("isfresh", "o!h", fc.alloc0)), not(or(inMods...)))
			fc.assumeRaw("(forall ((o!h Int)) (! " + implies(cond, eq(sel(nw, "o!h"), sel(k+"!0", "o!h"))) + " :pattern (" + sel(nw, "o!h") + ")))")
		}
		if li.modPreds != nil {
			var inMods []Term
			for _, p := range li.modPreds[k] {
				inMods = append(inMods, p("o!h"))
			}
			cond := and(not(app("isfresh", "o!h", in.alloc)), not(or(inMods...)))
			fc.assumeRaw("(forall ((o!h Int)) (! " + implies(cond, eq(sel(nw, "o!h"), sel(old, "o!h"))) + " :pattern (" + sel(nw, "o!h") + ")))")
		}
	}
	var las []*ssa.Alloc
	for a := range locals {
		las = append(las, a)
	}
	sort.Slice(las, func(i, j int) bool { return las[i].Name() < las[j].Name() })
	for _, a := range las {
		if _, live := in.locals[a]; !live {
			continue
		}
		et := a.Type().(*types.Pointer).Elem()
		hs.locals[a] = fc.havocVal("l_"+sanitizeName(a.Comment), et)
	}
	for _, id := range sortedKeys(iters) {
		if _, live := in.iters[id]; !live {
			continue
		}
		p := fc.fresh("itpos", SInt)
		hs.iters[id] = p
	}
	// automatic invariants for range loops
	if li.hiddenIdx != nil {
		if v, ok := hs.locals[li.hiddenIdx].(string); ok {
			fc.assume(app("<=", "(- 1)", v))
			// the loop test is `idx+1 < n` with n computed once before the loop
			for _, in := range li.head.Instrs {
				if bo, ok := in.(*ssa.BinOp); ok && bo.Op == token.LSS {
					if nv, ok := fc.vals[bo.Y]; ok {
						if nt, ok := nv.(string); ok {
							fc.assume(and(app("<", v, app("imax", nt, "0")), app("<=", nt, "281474976710656")))
						}
					}
					break
				}
			}
		}
	}
	envH := fc.loopEnv(hs, li)
	for _, inv := range invs {
		if fc.dropped[inv] {
			continue
		}
		t, err := envH.EvalBool(inv.Expr)
		if err != nil {
			fc.dropped[inv] = true
			continue
		}
		if fc.clauseNotAssumed("inv-init", fmt.Sprintf("loop %d invariant holds on entry: %s", li.ordinal, inv.Text), inv.Label) ||
			fc.clauseNotAssumed("inv-pres", fmt.Sprintf("loop %d invariant preserved: %s", li.ordinal, inv.Text), inv.Label) {
			continue // an invariant that is not claimed is not available at the loop head either
		}
		fc.assume(t)
	}
	fc.canary("loop"+strconv.Itoa(li.ordinal), "false", fmt.Sprintf("invariants of loop %d are satisfiable", li.ordinal))
	li.headState = hs.clone()
	li.headReach = rH
	// variant
	li.variant0 = nil
	for _, d := range fc.variantExprs(li) {
		v, err := envH.Eval(d)
		if err != nil {
			panic(evalErr(fmt.Sprintf("loop %d decreases: %v", li.ordinal, err)))
		}
		if v.S != SInt {
			panic(evalErr(fmt.Sprintf("loop %d decreases: not an integer expression", li.ordinal)))
		}
		li.variant0 = append(li.variant0, fc.define("var0", SInt, v.T))
	}
}

// allInvariants: declared invariants plus the automatic ones for range loops.
func (fc *FnCtx) allInvariants(li *loopInfo) []*Clause {
	var out []*Clause
	if li.iterID != "" {
		e, _ := ParseExpr("0 <= $i && $i <= $n")
		out = append(out, &Clause{Kind: "invariant", Expr: e, Text: "0 <= $i <= len (automatic)"})
	}
	out = append(out, li.lc.Invariants...)
	return out
}

func (fc *FnCtx) variantExprs(li *loopInfo) []*Expr {
	if li.lc.Decreases != nil {
		return li.lc.Decreases.Exprs
	}
	return nil
}

func (fc *FnCtx) obligeNoAssume(kind string, goal Term, text string, tags []string, label string) {
	n := len(fc.log)
	fc.oblige(kind, goal, text, tags, label)
	// keep the assumption (assert-then-assume) — identical to oblige; kept separate for clarity
	_ = n
}

// splitConds: the in-edge conditions of the nearest multi-predecessor block reached by walking up single-predecessor
// chains from b. Proving a goal once per incoming edge (with that edge assumed taken) keeps each query small: the merged
// state constants collapse to the values of one path.
func (fc *FnCtx) splitConds(b *ssa.BasicBlock) []Term {
	fc.lastChain = nil
	for i := 0; i < 8 && b != nil; i++ {
		fc.lastChain = append(fc.lastChain, b)
		if cs := fc.blockIns[b]; len(cs) > 3 {
			fc.lastVias = fc.blockVias[b]
			fc.lastFroms = fc.blockFroms[b]
			return cs
		}
		var np *ssa.BasicBlock
		n := 0
		for _, p := range b.Preds {
			if !fc.isBackEdge(p, b) {
				np = p
				n++
			}
		}
		if n != 1 {
			return nil
		}
		if _, isLoop := fc.loops[b]; isLoop {
			return nil
		}
		b = np
	}
	return nil
}

// obligeSplit emits one obligation per split condition (or a single one when there is nothing to split).
func (fc *FnCtx) obligeSplit(b *ssa.BasicBlock, kind string, goal Term, text string, tags []string, label string) {
	cs := fc.splitConds(b)
	if len(cs) == 0 {
		fc.oblige(kind, goal, text, tags, label)
		return
	}
	saveR := fc.reach
	for i, c := range cs {
		fc.reach = and(saveR, c)
		fc.obligeNoAssumeRaw(kind, goal, text, tags, label)
		if len(fc.obls) > 0 && i < len(fc.lastVias) {
			o := fc.obls[len(fc.obls)-1]
			o.Via = fc.lastVias[i]
			if i < len(fc.lastFroms) && fc.lastFroms[i] != nil && !noSlice && len(fc.inlineStack) == 0 {
				o.Slice, o.SliceKey = fc.sliceFor(fc.lastFroms[i], fc.lastChain)
			}
		}
	}
	fc.reach = saveR
	if fc.clauseNotAssumed(kind, text, label) {
		return
	}
	fc.assume(goal)
}

var noSlice = os.Getenv("GOVC_NOSLICE") != ""

// ancestors returns the indices of the blocks from which b is reachable without taking a back edge (b included).
func (fc *FnCtx) ancestors(b *ssa.BasicBlock) map[int]bool {
	if a, ok := fc.ancCache[b]; ok {
		return a
	}
	a := map[int]bool{}
	var dfs func(x *ssa.BasicBlock)
	dfs = func(x *ssa.BasicBlock) {
		if a[x.Index] {
			return
		}
		a[x.Index] = true
		for _, p := range x.Preds {
			if !fc.isBackEdge(p, x) {
				dfs(p)
			}
		}
		// an unrolled loop is straight-line code: a later iteration depends on every block of the loop
		for _, li := range fc.loopList {
			if li.lc != nil && li.lc.Unroll > 0 && li.blocks[x] {
				for y := range li.blocks {
					dfs(y)
				}
			}
		}
	}
	dfs(b)
	fc.ancCache[b] = a
	return a
}

// sliceFor: the blocks whose facts can matter for a goal proved under "the edge from `from` into the merge block was taken":
// the ancestors of from and the single-predecessor chain between the merge block and the block of the goal.
func (fc *FnCtx) sliceFor(from *ssa.BasicBlock, chain []*ssa.BasicBlock) (map[int]bool, string) {
	a := fc.ancestors(from)
	out := make(map[int]bool, len(a)+len(chain))
	for k := range a {
		out[k] = true
	}
	key := fmt.Sprintf("e%d", from.Index)
	for _, c := range chain {
		out[c.Index] = true
		key += fmt.Sprintf(".%d", c.Index)
	}
	return out, key
}

func (fc *FnCtx) backEdge(li *loopInfo, st *State, cond Term) {
	save, saveR := fc.st, fc.reach
	fc.st = st.clone()
	fc.reach = cond
	env := fc.loopEnv(fc.st, li)
	var from *ssa.BasicBlock
	if fc.curInstr != nil {
		from = fc.curInstr.Block()
	}
	// step clauses: proved before the invariants (which may then use them as lemmas): relation between the state at the head of this iteration (prev) and the state at its back edge
	if li.lc != nil && len(li.lc.Steps) > 0 && li.headState != nil {
		env.prevEnv = fc.loopEnv(li.headState, li)
		for _, sc := range li.lc.Steps {
			if fc.dropped[sc] {
				continue
			}
			t, err := env.EvalBool(sc.Expr)
			if err != nil {
				fc.dropped[sc] = true
				fc.w.warnings = append(fc.w.warnings, fmt.Sprintf("%s:%d: step clause not applicable: %v", sc.File, sc.Line, err))
				continue
			}
			tags := append([]string{"C02"}, sc.Tags...)
			fc.obligeSplit(from, "step", t, fmt.Sprintf("loop %d step: %s", li.ordinal, sc.Text), tags, sc.Label)
		}
		env.prevEnv = nil
	}
	for _, inv := range fc.allInvariants(li) {
		if fc.dropped[inv] {
			continue
		}
		t, err := env.EvalBool(inv.Expr)
		if err != nil {
			fc.dropped[inv] = true
			continue
		}
		tags := append([]string{"C02"}, inv.Tags...)
		fc.obligeSplit(from, "inv-pres", t, fmt.Sprintf("loop %d invariant preserved: %s", li.ordinal, inv.Text), tags, inv.Label)
	}
	// termination
	ves := fc.variantExprs(li)
	if len(ves) == 0 && (li.hiddenIdx != nil || li.iterID != "") {
		// range loops terminate by construction: the hidden index strictly increases up to a fixed length
	} else if len(ves) == 0 {
		fc.oblige("var-dec", "false", fmt.Sprintf("loop %d has no decreases clause", li.ordinal), []string{"C02"}, "")
	} else {
		var cur []Term
		for _, d := range ves {
			v, err := env.Eval(d)
			if err != nil {
				panic(evalErr(fmt.Sprintf("loop %d decreases: %v", li.ordinal, err)))
			}
			cur = append(cur, v.T)
		}
		// lexicographic decrease with each component bounded below by 0 at the head
		var alts []Term
		for i := range cur {
			var conj []Term
			for j := 0; j < i; j++ {
				conj = append(conj, eq(cur[j], li.variant0[j]))
			}
			conj = append(conj, app("<", cur[i], li.variant0[i]), app("<=", "0", li.variant0[i]))
			alts = append(alts, and(conj...))
		}
		fc.oblige("var-dec", or(alts...), fmt.Sprintf("loop %d variant decreases and is bounded below", li.ordinal), []string{"C02"}, "")
	}
	fc.st, fc.reach = save, saveR
}

// ---------------------------------------------------------------------------------------------
// blocks

func valEqual(a, b Val) bool {
	switch x := a.(type) {
	case string:
		y, ok := b.(string)
		return ok && x == y
	case StructVal:
		y, ok := b.(StructVal)
		if !ok || len(x.f) != len(y.f) {
			return false
		}
		for i := range x.f {
			if !valEqual(x.f[i], y.f[i]) {
				return false
			}
		}
		return true
	case AddrLocal:
		y, ok := b.(AddrLocal)
		if !ok || x.a != y.a || len(x.path) != len(y.path) {
			return false
		}
		for i := range x.path {
			if x.path[i] != y.path[i] {
				return false
			}
		}
		return true
	case AddrField:
		y, ok := b.(AddrField)
		return ok && x.ref == y.ref && x.idx == y.idx && types.Identical(x.st, y.st)
	case AddrGlobal:
		y, ok := b.(AddrGlobal)
		return ok && x.key == y.key
	case nil:
		return b == nil
	}
	return false
}

func (fc *FnCtx) mergeVal(prefix string, t types.Type, vs []Val, conds []Term) Val {
	same := true
	for i := 1; i < len(vs); i++ {
		if !valEqual(vs[0], vs[i]) {
			same = false
			break
		}
	}
	if same {
		return vs[0]
	}
	if sv, ok := vs[0].(StructVal); ok {
		st := t.Underlying().(*types.Struct)
		out := StructVal{t: sv.t}
		for i := range sv.f {
			var fvs []Val
			for _, v := range vs {
				x, ok := v.(StructVal)
				if !ok {
					unsupported("merge of struct with non-struct")
				}
				fvs = append(fvs, x.f[i])
			}
			out.f = append(out.f, fc.mergeVal(prefix+"_"+st.Field(i).Name(), st.Field(i).Type(), fvs, conds))
		}
		return out
	}
	s, ok := sortOf(t)
	if !ok {
		unsupported("merge of values of type %s", t)
	}
	m := fc.fresh(prefix, s)
	for i, v := range vs {
		fc.assumeRaw(implies(conds[i], eq(m, fc.asTerm(v, t))))
	}
	return m
}

func (fc *FnCtx) merge(b *ssa.BasicBlock, ins []edgeOut) (*State, Term) {
	if len(ins) == 1 {
		r := ins[0].cond
		if len(r) > 40 {
			n := fc.fresh("r_b"+strconv.Itoa(b.Index), SBool)
			fc.assumeRaw(eq(n, r))
			r = n
		}
		return ins[0].st.clone(), r
	}
	var conds []Term
	for _, e := range ins {
		conds = append(conds, e.cond)
	}
	r := fc.fresh("r_b"+strconv.Itoa(b.Index), SBool)
	fc.assumeRaw(eq(r, or(conds...)))
	out := &State{heap: map[string]Term{}, locals: map[*ssa.Alloc]Val{}, iters: map[string]Term{}}
	// heap
	keys := map[string]bool{}
	for _, e := range ins {
		for k := range e.st.heap {
			keys[k] = true
		}
	}
	for _, k := range sortedKeys(keys) {
		same := true
		for i := 1; i < len(ins); i++ {
			if ins[i].st.Heap(k) != ins[0].st.Heap(k) {
				same = false
				break
			}
		}
		if same {
			out.heap[k] = ins[0].st.Heap(k)
			continue
		}
		m := fc.fresh(sanitize(k), fc.w.heapSorts[k])
		for _, e := range ins {
			fc.assumeRaw(implies(e.cond, eq(m, e.st.Heap(k))))
		}
		out.heap[k] = m
	}
	// alloc
	same := true
	for i := 1; i < len(ins); i++ {
		if ins[i].st.alloc != ins[0].st.alloc {
			same = false
		}
	}
	if same {
		out.alloc = ins[0].st.alloc
	} else {
		m := fc.fresh("alloc", SInt)
		for _, e := range ins {
			fc.assumeRaw(implies(e.cond, eq(m, e.st.alloc)))
		}
		out.alloc = m
	}
	// locals live in all predecessors
	var las []*ssa.Alloc
	for a := range ins[0].st.locals {
		live := true
		for _, e := range ins[1:] {
			if _, ok := e.st.locals[a]; !ok {
				live = false
				break
			}
		}
		if live {
			las = append(las, a)
		}
	}
	sort.Slice(las, func(i, j int) bool { return las[i].Name() < las[j].Name() })
	for _, a := range las {
		var vs []Val
		for _, e := range ins {
			vs = append(vs, e.st.locals[a])
		}
		out.locals[a] = fc.mergeVal("l_"+sanitizeName(a.Comment), a.Type().(*types.Pointer).Elem(), vs, conds)
	}
	// iterators
	for id := range ins[0].st.iters {
		live := true
		var vs []Val
		for _, e := range ins {
			p, ok := e.st.iters[id]
			if !ok {
				live = false
				break
			}
			vs = append(vs, p)
		}
		if live {
			out.iters[id] = fc.mergeVal("itpos", types.Typ[types.Int], vs, conds).(string)
		}
	}
	return out, r
}

func (fc *FnCtx) block(b *ssa.BasicBlock) { fc.blockWith(b, nil, false) }

// unrollLoop executes a loop whose trip count is bounded by a literal (`loop k unroll N`) N+1 times symbolically and then
// requires the back edge to be unreachable (unwinding assertion): complete, not a bounded stand-in.
func (fc *FnCtx) unrollLoop(li *loopInfo, order []*ssa.BasicBlock) {
	var body []*ssa.BasicBlock
	for _, b := range order {
		if li.blocks[b] && b != li.head {
			body = append(body, b)
		}
	}
	// values defined inside the loop must not be used after it (each round overwrites them)
	for b := range li.blocks {
		for _, in := range b.Instrs {
			v, ok := in.(ssa.Value)
			if !ok || v.Referrers() == nil {
				continue
			}
			for _, r := range *v.Referrers() {
				if r.Block() != nil && !li.blocks[r.Block()] {
					if _, isAlloc := in.(*ssa.Alloc); isAlloc {
						continue
					}
					unsupported("unroll: value %s defined in loop %d is used after the loop", v.Name(), li.ordinal)
				}
			}
		}
	}
	var ins []edgeOut
	for _, p := range li.head.Preds {
		if fc.isBackEdge(p, li.head) {
			continue
		}
		for _, eo := range fc.outs[p] {
			if eo.to == li.head {
				ins = append(ins, eo)
			}
		}
	}
	exits := map[*ssa.BasicBlock][]edgeOut{}
	for round := 0; round <= li.lc.Unroll; round++ {
		if len(ins) == 0 {
			break
		}
		for b := range li.blocks {
			delete(fc.outs, b)
		}
		fc.blockWith(li.head, ins, true)
		for _, b := range body {
			fc.blockWith(b, nil, true)
		}
		ins = nil
		for _, b := range append([]*ssa.BasicBlock{li.head}, body...) {
			for _, eo := range fc.outs[b] {
				if eo.to == li.head {
					if eo.cond != "false" {
						ins = append(ins, eo)
					}
				} else if !li.blocks[eo.to] {
					exits[b] = append(exits[b], eo)
				}
			}
		}
	}
	// unwinding assertion
	var conds []Term
	for _, eo := range ins {
		conds = append(conds, eo.cond)
	}
	fc.reach = "true"
	fc.curInstr = li.head.Instrs[0]
	fc.oblige("unwind", not(or(conds...)), fmt.Sprintf("loop %d needs at most %d iterations", li.ordinal, li.lc.Unroll), []string{"C02"}, "")
	// assertions at the loop's exits (`loop k exit-assert e`), evaluated over the locals
	for _, b := range append([]*ssa.BasicBlock{li.head}, body...) {
		for i := range exits[b] {
			eo := exits[b][i]
			for _, ea := range li.lc.ExitAsserts {
				fc.st = eo.st.clone()
				fc.reach = eo.cond
				env := fc.loopEnv(fc.st, li)
				t, err := env.EvalBool(ea.Expr)
				if err != nil {
					fc.w.warnings = append(fc.w.warnings, fmt.Sprintf("%s:%d: exit-assert not applicable: %v", ea.File, ea.Line, err))
					continue
				}
				fc.oblige("assert", t, fmt.Sprintf("at the exit of loop %d: %s", li.ordinal, ea.Text), ea.Tags, ea.Label)
			}
		}
	}
	for b := range li.blocks {
		fc.outs[b] = exits[b]
	}
}

func (fc *FnCtx) blockWith(b *ssa.BasicBlock, given []edgeOut, unrolled bool) {
	if len(fc.inlineStack) == 0 {
		fc.curBlock = b
		defer func() { fc.curBlock = nil }()
	}
	// gather incoming edges (non-back)
	var ins []edgeOut
	if given != nil {
		ins = given
	} else {
		for _, p := range b.Preds {
			if fc.isBackEdge(p, b) {
				continue
			}
			for _, eo := range fc.outs[p] {
				if eo.to == b {
					ins = append(ins, eo)
				}
			}
		}
	}
	if b == fc.fn.Blocks[0] {
		// entry block: state prepared by Generate
	} else {
		if len(ins) == 0 {
			return // unreachable
		}
		st, r := fc.merge(b, ins)
		fc.st, fc.reach = st, r
		var cs []Term
		var vias []string
		for _, e := range ins {
			cs = append(cs, e.cond)
			via := ""
			if e.from != nil {
				for i := len(e.from.Instrs) - 1; i >= 0; i-- {
					if p := e.from.Instrs[i].Pos(); p.IsValid() {
						via = fmt.Sprintf("via %s:%d", shortFile(fc.w.fset.Position(p).Filename), fc.w.fset.Position(p).Line)
						break
					}
				}
			}
			vias = append(vias, via)
		}
		fc.blockIns[b] = cs
		fc.blockVias[b] = vias
		var froms []*ssa.BasicBlock
		for _, e := range ins {
			froms = append(froms, e.from)
		}
		fc.blockFroms[b] = froms
	}
	if li, ok := fc.loops[b]; ok && !unrolled {
		fc.loopHead(li, fc.st, fc.reach)
		fc.st = li.headState.clone()
		fc.reach = li.headReach
	}
	for _, in := range b.Instrs {
		fc.instr(in)
	}
	// terminator
	last := b.Instrs[len(b.Instrs)-1]
	fc.curInstr = last
	var outs []edgeOut
	switch t := last.(type) {
	case *ssa.If:
		c := fc.term(t.Cond)
		outs = append(outs, edgeOut{to: b.Succs[0], cond: and(fc.reach, c), st: fc.st, from: b})
		outs = append(outs, edgeOut{to: b.Succs[1], cond: and(fc.reach, not(c)), st: fc.st, from: b})
	case *ssa.Jump:
		outs = append(outs, edgeOut{to: b.Succs[0], cond: fc.reach, st: fc.st, from: b})
	case *ssa.Return:
		if n := len(fc.inlineStack); n > 0 {
			fr := fc.inlineStack[n-1]
			var vs []Val
			for _, rv := range t.Results {
				vs = append(vs, fc.val(rv))
			}
			fr.rets = append(fr.rets, inlineRet{cond: fc.reach, st: fc.st, vals: vs})
		} else {
			fc.doReturn(t)
		}
	case *ssa.Panic:
	default:
		unsupported("terminator %T", last)
	}
	// give long edge conditions a name
	for i := range outs {
		if len(outs[i].cond) > 60 {
			n := fc.fresh("e_b"+strconv.Itoa(b.Index), SBool)
			fc.assumeRaw(eq(n, outs[i].cond))
			outs[i].cond = n
		}
	}
	fc.outs[b] = outs
	for _, eo := range outs {
		if unrolled {
			break
		}
		if fc.isBackEdge(b, eo.to) {
			li := fc.loops[eo.to]
			fc.curInstr = last
			fc.backEdge(li, eo.st, eo.cond)
		}
	}
}

func (fc *FnCtx) doReturn(r *ssa.Return) {
	fc.returnReach = append(fc.returnReach, fc.reach)
	env := fc.envAt(fc.st, fc.entryEnv(), func(name string) (EV, bool) {
		ev, ok := fc.paramEV[name]
		return ev, ok
	})
	results := fc.fn.Signature.Results()
	for i, rv := range r.Results {
		t := results.At(i).Type()
		v := fc.val(rv)
		if sv, isStruct := v.(StructVal); isStruct {
			tmp := fc.newRef()
			fc.structToHeap(tmp, t, sv)
			ev := EV{tmp, SStruct, t}
			if n := results.At(i).Name(); n != "" && n != "_" {
				env.vars[n] = ev
			}
			env.vars[fmt.Sprintf("result%d", i)] = ev
			if results.Len() == 1 {
				env.vars["result"] = ev
			}
			continue
		}
		tv, ok := v.(string)
		if !ok {
			if _, isAddr := v.(AddrField); isAddr {
				tv = fc.asTerm(v, t)
			} else {
				continue
			}
		}
		s, ok := sortOf(t)
		if !ok {
			continue
		}
		ev := EV{tv, s, t}
		if n := results.At(i).Name(); n != "" && n != "_" {
			env.vars[n] = ev
		}
		env.vars[fmt.Sprintf("result%d", i)] = ev
		if results.Len() == 1 {
			env.vars["result"] = ev
		}
	}
	for _, e := range fc.contract.Ensures {
		t, err := env.EvalBool(e.Expr)
		if err != nil {
			panic(evalErr(fmt.Sprintf("%s:%d: %v", e.File, e.Line, err)))
		}
		fc.obligeSplit(r.Block(), "post", t, "ensures "+e.Text, e.Tags, e.Label)
	}
	if fc.isInit {
		for _, g := range fc.w.cs.Globals {
			ge := &Env{w: fc.w, pkg: fc.pkg, vars: map[string]EV{}, st: fc.st, facts: &fc.facts}
			if g.pkgName() != "" && g.pkgName() != fc.pkg.Name() {
				continue
			}
			t, err := ge.EvalBool(g.Expr)
			if err != nil {
				panic(evalErr(fmt.Sprintf("global invariant %s: %v", g.Name, err)))
			}
			fc.oblige("global", t, "global invariant "+g.Name+" established by the package initialiser", g.Tags, g.Name)
		}
	}
}

func (g *GlobalInv) pkgName() string {
	if i := strings.Index(g.Name, "."); i >= 0 {
		return g.Name[:i]
	}
	return ""
}

// initPhase: is fn (transitively) called from the package initialiser of pkgName? Such a function may run before the
// package's global invariants hold, so it must not assume them.
func (w *World) initPhase(fn *ssa.Function, pkgName string) bool {
	if w.initReach == nil {
		w.initReach = map[string]map[*ssa.Function]bool{}
	}
	reach, ok := w.initReach[pkgName]
	if !ok {
		reach = map[*ssa.Function]bool{}
		if sp := w.ssaPkgs[pkgName]; sp != nil {
			if init := sp.Func("init"); init != nil {
				var visit func(f *ssa.Function)
				visit = func(f *ssa.Function) {
					if reach[f] {
						return
					}
					reach[f] = true
					for _, b := range f.Blocks {
						for _, in := range b.Instrs {
							var callee *ssa.Function
							switch x := in.(type) {
							case ssa.CallInstruction:
								callee = x.Common().StaticCallee()
							case *ssa.MakeClosure:
								callee, _ = x.Fn.(*ssa.Function)
							}
							if callee != nil && callee.Blocks != nil && w.fnByKey[shortFuncKey(callee)] == callee {
								visit(callee)
							}
						}
					}
				}
				visit(init)
			}
		}
		w.initReach[pkgName] = reach
	}
	return reach[fn]
}
