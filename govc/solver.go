package main

// SMT script assembly and the solver portfolio.

import (
	"bytes"
	"context"
	"fmt"
	"go/token"
	"os"
	"os/exec"
	"path/filepath"
	"sort"
	"strings"
	"sync"
	"time"
)

var graceS = 4
var phase1TimeoutMs = 5000

// oblSlots bounds the number of obligations whose scripts are materialised at once (memory).
var oblSlots = make(chan struct{}, 5)

const ufDecls = `
(declare-fun bit_and (Int Int) Int)
(declare-fun bit_or (Int Int) Int)
(declare-fun bit_shr (Int Int) Int)
(declare-fun bit_shl (Int Int) Int)
(declare-fun bit_xor (Int Int) Int)
(declare-fun bit_and_not (Int Int) Int)
(declare-fun strlt (Str Str) Bool)
(declare-fun dyntype (Int) Int)
(declare-fun implements (Int Int) Bool)
(declare-fun closure_fn (Int) Int)
(declare-fun closure_bind (Int Int) Int)
(declare-fun iface_str (Int) Str)
(declare-fun iface_slice (Int) Slice)
(declare-fun fnref (Int) Int)
(declare-fun err_is_range (Int) Bool)
(assert (not (err_is_range 0)))
(assert (forall ((k Int)) (! (< (fnref k) 0) :pattern ((fnref k)))))
(assert (forall ((a Str) (b Str)) (! (not (and (strlt a b) (strlt b a))) :pattern ((strlt a b) (strlt b a)))))
(assert (forall ((a Str)) (! (not (strlt a a)) :pattern ((strlt a a)))))
`

type Script struct {
	header string
}

func (w *World) scriptHeader(fc *FnCtx) (string, error) {
	spec, err := w.SpecDefs()
	if err != nil {
		return "", err
	}
	var sb strings.Builder
	sb.WriteString(prelude)
	sb.WriteString(ufDecls)
	keys := append([]string{}, w.heapOrder...)
	sort.Strings(keys)
	for _, k := range keys {
		fmt.Fprintf(&sb, "(declare-const %s!0 %s)\n", k, w.heapSorts[k])
	}
	for _, n := range w.pureOrder {
		sb.WriteString(w.pureDecls[n])
		sb.WriteString("\n")
	}
	sb.WriteString(w.lits.Defs())
	sb.WriteString(spec)
	for _, d := range fc.decls {
		sb.WriteString(d)
		sb.WriteString("\n")
	}
	return sb.String(), nil
}

const z3Opts = "(set-option :smt.mbqi false)\n(set-option :auto_config false)\n(set-option :smt.qi.eager_threshold 100)\n"

type solverSpec struct {
	name string
	cmd  func(file string, timeoutS int) []string
	opts string
}

var solvers = []solverSpec{
	{"z3-new", func(f string, t int) []string { return []string{"z3-new", fmt.Sprintf("-T:%d", t), f} }, z3Opts},
	{"z3", func(f string, t int) []string { return []string{"z3", fmt.Sprintf("-T:%d", t), f} }, z3Opts},
	{"z3-new-mbqi", func(f string, t int) []string { return []string{"z3-new", fmt.Sprintf("-T:%d", t), f} }, ""},
	{"cvc5", func(f string, t int) []string {
		return []string{"cvc5", "--lang=smt2", fmt.Sprintf("--tlimit=%d", t*1000), f}
	}, "(set-logic ALL)\n"},
}

func runSolver(ctx context.Context, sp solverSpec, file string, timeoutS int) (string, string, float64) {
	args := sp.cmd(file, timeoutS)
	c, cancel := context.WithTimeout(ctx, time.Duration(timeoutS+2)*time.Second)
	defer cancel()
	cmd := exec.CommandContext(c, args[0], args[1:]...)
	var out bytes.Buffer
	cmd.Stdout = &out
	cmd.Stderr = &out
	t0 := time.Now()
	_ = cmd.Run()
	dt := time.Since(t0).Seconds()
	txt := out.String()
	first := strings.TrimSpace(strings.SplitN(txt, "\n", 2)[0])
	switch first {
	case "unsat", "sat", "unknown":
		return first, txt, dt
	}
	if strings.Contains(txt, "timeout") || c.Err() != nil {
		return "timeout", txt, dt
	}
	if strings.HasPrefix(txt, "(error") || strings.Contains(txt, "error") {
		return "error", txt, dt
	}
	return "unknown", txt, dt
}

// Discharge runs all obligations of fc. Phase 1: one incremental z3-new session; phase 2: portfolio on the rest.
func (w *World) Discharge(fc *FnCtx, header string, scratch string, timeoutS int, only func(*Obligation) bool, jobs chan struct{}) error {
	var todo []*Obligation
	for _, o := range fc.obls {
		if only == nil || only(o) {
			todo = append(todo, o)
		}
	}
	if len(todo) == 0 {
		return nil
	}
	base := filepath.Join(scratch, sanitizeFile(fc.key))
	// phase 1: incremental sessions. Obligations without a slice are cut into chunks that run in parallel, each replaying
	// the log prefix it needs; obligations proved per incoming edge (Slice != nil) get one session per edge which replays only
	// the log entries of the blocks that can reach that edge.
	type chunk struct {
		obls []*Obligation
	}
	var chunks []chunk
	var plain []*Obligation
	bySlice := map[string][]*Obligation{}
	var sliceKeys []string
	for _, o := range todo {
		if o.Slice == nil {
			plain = append(plain, o)
			continue
		}
		if _, ok := bySlice[o.SliceKey]; !ok {
			sliceKeys = append(sliceKeys, o.SliceKey)
		}
		bySlice[o.SliceKey] = append(bySlice[o.SliceKey], o)
	}
	if len(plain) > 0 {
		nchunks := 1
		if len(plain) > 40 {
			nchunks = (len(plain) + 39) / 40
			if nchunks > 12 {
				nchunks = 12
			}
		}
		per := (len(plain) + nchunks - 1) / nchunks
		for c := 0; c < nchunks; c++ {
			lo, hi := c*per, (c+1)*per
			if hi > len(plain) {
				hi = len(plain)
			}
			if lo < hi {
				chunks = append(chunks, chunk{plain[lo:hi]})
			}
		}
	}
	for _, k := range sliceKeys {
		chunks = append(chunks, chunk{bySlice[k]})
	}
	type chunkRes struct {
		answers []string
		err     error
		dt      float64
	}
	results := make([]chunkRes, len(chunks))
	var cwg sync.WaitGroup
	for c := range chunks {
		c := c
		obls := chunks[c].obls
		cwg.Add(1)
		go func() {
			defer cwg.Done()
			jobs <- struct{}{}
			defer func() { <-jobs }()
			var sb strings.Builder
			sb.WriteString(z3Opts)
			fmt.Fprintf(&sb, "(set-option :timeout %d)\n", phase1TimeoutMs)
			sb.WriteString(header)
			li := 0
			for _, o := range obls {
				for ; li < o.LogLen; li++ {
					if o.Slice != nil && li < len(fc.logBlk) && fc.logBlk[li] >= 0 && !o.Slice[fc.logBlk[li]] {
						continue
					}
					sb.WriteString(fc.log[li])
					sb.WriteString("\n")
				}
				sb.WriteString("(push)\n(assert (not " + o.Goal + "))\n(check-sat)\n(pop)\n")
			}
			f1 := fmt.Sprintf("%s.inc%d.smt2", base, c)
			if err := os.WriteFile(f1, []byte(sb.String()), 0o644); err != nil {
				results[c].err = err
				return
			}
			t0 := time.Now()
			cx, cancel := context.WithTimeout(context.Background(), time.Duration((phase1TimeoutMs/1000+1)*len(obls)+30)*time.Second)
			cmd := exec.CommandContext(cx, "z3-new", f1)
			var out bytes.Buffer
			cmd.Stdout = &out
			cmd.Stderr = &out
			_ = cmd.Run()
			cancel()
			results[c].dt = time.Since(t0).Seconds()
			for _, l := range strings.Split(strings.TrimSpace(out.String()), "\n") {
				l = strings.TrimSpace(l)
				if l == "unsat" || l == "sat" || l == "unknown" || l == "timeout" {
					results[c].answers = append(results[c].answers, l)
				} else if strings.HasPrefix(l, "(error") {
					results[c].err = fmt.Errorf("solver error on %s: %s (script %s)", fc.key, l, f1)
					return
				}
			}
		}()
	}
	cwg.Wait()
	var rest []*Obligation
	for c := range chunks {
		if results[c].err != nil {
			return results[c].err
		}
		obls := chunks[c].obls
		ans := results[c].answers
		for i, o := range obls {
			o.SMTSize = len(header)
			if i < len(ans) && ans[i] == "unsat" {
				o.Status = "unsat"
				o.Solver = "z3-new(inc)"
				o.TimeS = results[c].dt / float64(len(obls))
			} else {
				if i < len(ans) {
					o.Status = ans[i]
				} else {
					o.Status = "unknown"
				}
				if o.Kind != "canary" {
					rest = append(rest, o)
				}
			}
		}
	}
	// phase 2: individual files, raced
	var wg sync.WaitGroup
	for idx, o := range rest {
		o := o
		idx := idx
		wg.Add(1)
		oblSlots <- struct{}{}
		go func() {
			defer wg.Done()
			defer func() { <-oblSlots }()
			var body strings.Builder
			body.WriteString(header)
			for i := 0; i < o.LogLen; i++ {
				if o.Slice != nil && i < len(fc.logBlk) && fc.logBlk[i] >= 0 && !o.Slice[fc.logBlk[i]] {
					continue
				}
				body.WriteString(fc.log[i])
				body.WriteString("\n")
			}
			body.WriteString("(assert (not " + o.Goal + "))\n(check-sat)\n")
			type ans struct {
				st, out, solver string
				dt              float64
			}
			ch := make(chan ans, len(solvers))
			ctx, cancel := context.WithCancel(context.Background())
			defer cancel()
			for _, sp := range solvers {
				sp := sp
				file := fmt.Sprintf("%s.%d.%s.smt2", base, idx, sp.name)
				text := sp.opts + body.String()
				if sp.name == "z3-new" {
					// z3 answers many of these queries several times faster through its incremental core (measured: 1.2 s against
					// 7 s for the same text); a (push) before the goal selects it
					text = strings.Replace(text, "(assert (not "+o.Goal+"))\n(check-sat)\n", "(push)\n(assert (not "+o.Goal+"))\n(check-sat)\n", 1)
				}
				_ = os.WriteFile(file, []byte(text), 0o644)
				go func() {
					st, out, dt := runSolver(ctx, sp, file, timeoutS)
					ch <- ans{st, out, sp.name, dt}
				}()
			}
			best := ans{st: "unknown"}
			got := 0
			var grace <-chan time.Time
		wait:
			for got < len(solvers) {
				select {
				case a := <-ch:
					got++
					if a.st == "unsat" {
						best = a
						cancel()
						break wait
					}
					if a.st == "sat" && best.st != "sat" {
						best = a
					} else if best.solver == "" {
						best = a
					}
					if got >= 2 && grace == nil {
						// two solvers gave up: the last one gets a short grace period only
						grace = time.After(time.Duration(graceS) * time.Second)
					}
				case <-grace:
					cancel()
					break wait
				}
			}
			o.Status = best.st
			o.Solver = best.solver
			o.TimeS = best.dt
			o.Output = truncate(best.out, 2000)
			o.SMTSize = body.Len()
		}()
	}
	wg.Wait()
	return nil
}

func truncate(s string, n int) string {
	if len(s) > n {
		return s[:n] + "..."
	}
	return s
}

func sanitizeFile(s string) string {
	return strings.NewReplacer("/", "_", "(", "", ")", "", "*", "p", "$", "S", "#", "H", " ", "_").Replace(s)
}

// LemmaObligations builds a pseudo function context holding one obligation per `lemma`: the lemma must follow from the
// prelude, the spec definitions and the axioms/lemmas stated before it.
func (w *World) LemmaObligations() (*FnCtx, string, error) {
	if _, err := w.SpecDefs(); err != nil {
		return nil, "", err
	}
	fc := &FnCtx{w: w, key: "lemmas", kindCnt: map[string]int{}}
	for i, ax := range w.cs.Axioms {
		if ax.Lemma {
			tags := ax.Tags
			if len(tags) == 0 {
				tags = []string{"C02"}
			}
			fc.obls = append(fc.obls, &Obligation{Name: "lemmas/lemma/" + ax.Name, Func: "lemmas", Kind: "lemma", Label: ax.Name, Tags: tags,
				Goal: w.lemmaTerms[i], LogLen: len(fc.log), Pos: token.Position{Filename: ax.File, Line: ax.Line}, Text: "lemma " + ax.Name + ":" + ax.Text})
		}
		fc.log = append(fc.log, "(assert "+w.lemmaTerms[i]+")")
	}
	var sb strings.Builder
	sb.WriteString(prelude)
	sb.WriteString(ufDecls)
	keys := append([]string{}, w.heapOrder...)
	sort.Strings(keys)
	for _, k := range keys {
		fmt.Fprintf(&sb, "(declare-const %s!0 %s)\n", k, w.heapSorts[k])
	}
	sb.WriteString(w.lits.Defs())
	sb.WriteString(w.specCore)
	return fc, sb.String(), nil
}
