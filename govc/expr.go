package main

// Contract expression language: lexer + parser.
//
// Go-flavoured expressions extended with  ==>  <==>  forall/exists x T :: e   old(e)   c ? a : b
// Parsed into a small AST; typing and translation to SMT happen in eval.go.

import (
	"fmt"
	"strconv"
	"strings"
	"unicode"
)

type VarDecl struct {
	Name string
	Type string // Go type syntax, e.g. "int", "string", "*Url"
}

type Expr struct {
	Op   string  // "id","int","str","bool","nil","un","bin","sel","idx","slice","call","old","forall","exists","cond","deref"
	Name string  // identifier, operator, field name, function name
	Int  string  // integer literal (decimal text)
	Str  string  // string literal value
	Args []*Expr // operands
	Vars []VarDecl
	Trig [][]*Expr // optional triggers for quantifiers
	Pos  int
}

func (e *Expr) String() string {
	if e == nil {
		return "<nil>"
	}
	switch e.Op {
	case "id":
		return e.Name
	case "int", "real":
		return e.Int
	case "str":
		return strconv.Quote(e.Str)
	case "bool":
		return e.Name
	case "nil":
		return "nil"
	case "un":
		return e.Name + e.Args[0].String()
	case "deref":
		return "*" + e.Args[0].String()
	case "bin":
		return "(" + e.Args[0].String() + " " + e.Name + " " + e.Args[1].String() + ")"
	case "sel":
		return e.Args[0].String() + "." + e.Name
	case "idx":
		return e.Args[0].String() + "[" + e.Args[1].String() + "]"
	case "slice":
		lo, hi := "", ""
		if e.Args[1] != nil {
			lo = e.Args[1].String()
		}
		if e.Args[2] != nil {
			hi = e.Args[2].String()
		}
		return e.Args[0].String() + "[" + lo + ":" + hi + "]"
	case "call":
		var a []string
		for _, x := range e.Args {
			a = append(a, x.String())
		}
		return e.Name + "(" + strings.Join(a, ", ") + ")"
	case "old":
		return "old(" + e.Args[0].String() + ")"
	case "forall", "exists":
		var v []string
		for _, d := range e.Vars {
			v = append(v, d.Name+" "+d.Type)
		}
		return "(" + e.Op + " " + strings.Join(v, ", ") + " :: " + e.Args[0].String() + ")"
	case "cond":
		return "(" + e.Args[0].String() + " ? " + e.Args[1].String() + " : " + e.Args[2].String() + ")"
	}
	return "?" + e.Op
}

type tok struct {
	kind string // "id","int","str","char","op","eof"
	text string
	pos  int
}

type lexer struct {
	src  string
	toks []tok
	p    int
}

func lex(src string) ([]tok, error) {
	var toks []tok
	i := 0
	for i < len(src) {
		c := src[i]
		switch {
		case c == ' ' || c == '\t' || c == '\n' || c == '\r':
			i++
		case c == '_' || c == '$' || unicode.IsLetter(rune(c)):
			j := i + 1
			for j < len(src) && (src[j] == '_' || src[j] == '$' || src[j] == '#' || unicode.IsLetter(rune(src[j])) || unicode.IsDigit(rune(src[j]))) {
				j++
			}
			toks = append(toks, tok{"id", src[i:j], i})
			i = j
		case c >= '0' && c <= '9':
			j := i + 1
			for j < len(src) && (unicode.IsDigit(rune(src[j])) || unicode.IsLetter(rune(src[j])) || src[j] == '_') {
				j++
			}
			if j+1 < len(src) && src[j] == '.' && src[j+1] >= '0' && src[j+1] <= '9' {
				k := j + 1
				for k < len(src) && src[k] >= '0' && src[k] <= '9' {
					k++
				}
				toks = append(toks, tok{"real", src[i:k], i})
				i = k
				continue
			}
			txt := strings.ReplaceAll(src[i:j], "_", "")
			v, err := strconv.ParseInt(txt, 0, 64)
			if err != nil {
				// maybe large unsigned
				u, err2 := strconv.ParseUint(txt, 0, 64)
				if err2 != nil {
					return nil, fmt.Errorf("bad integer literal %q", src[i:j])
				}
				toks = append(toks, tok{"int", strconv.FormatUint(u, 10), i})
			} else {
				toks = append(toks, tok{"int", strconv.FormatInt(v, 10), i})
			}
			i = j
		case c == '"':
			j := i + 1
			for j < len(src) && src[j] != '"' {
				if src[j] == '\\' {
					j++
				}
				j++
			}
			if j >= len(src) {
				return nil, fmt.Errorf("unterminated string literal")
			}
			s, err := strconv.Unquote(src[i : j+1])
			if err != nil {
				return nil, fmt.Errorf("bad string literal %s: %v", src[i:j+1], err)
			}
			toks = append(toks, tok{"str", s, i})
			i = j + 1
		case c == '`':
			j := strings.IndexByte(src[i+1:], '`')
			if j < 0 {
				return nil, fmt.Errorf("unterminated raw string")
			}
			toks = append(toks, tok{"str", src[i+1 : i+1+j], i})
			i = i + j + 2
		case c == '\'':
			j := i + 1
			for j < len(src) && src[j] != '\'' {
				if src[j] == '\\' {
					j++
				}
				j++
			}
			if j >= len(src) {
				return nil, fmt.Errorf("unterminated char literal")
			}
			r, _, _, err := strconv.UnquoteChar(src[i+1:j], '\'')
			if err != nil {
				return nil, fmt.Errorf("bad char literal %s", src[i:j+1])
			}
			toks = append(toks, tok{"int", strconv.Itoa(int(r)), i})
			i = j + 1
		default:
			ops := []string{"<==>", "==>", "::", "==", "!=", "<=", ">=", "&&", "||", "<<", ">>", "..",
				"+", "-", "*", "/", "%", "&", "|", "!", "<", ">", "(", ")", "[", "]", ".", ",", "?", ":", "{", "}"}
			matched := false
			for _, o := range ops {
				if strings.HasPrefix(src[i:], o) {
					toks = append(toks, tok{"op", o, i})
					i += len(o)
					matched = true
					break
				}
			}
			if !matched {
				return nil, fmt.Errorf("unexpected character %q at %d in %q", c, i, src)
			}
		}
	}
	toks = append(toks, tok{"eof", "", len(src)})
	return toks, nil
}

type eparser struct {
	toks []tok
	p    int
	src  string
}

func ParseExpr(src string) (*Expr, error) {
	toks, err := lex(src)
	if err != nil {
		return nil, err
	}
	ps := &eparser{toks: toks, src: src}
	var e *Expr
	func() {
		defer func() {
			if r := recover(); r != nil {
				if pe, ok := r.(parseErr); ok {
					err = fmt.Errorf("%s (in %q)", string(pe), src)
					return
				}
				panic(r)
			}
		}()
		e = ps.parseTop()
		if ps.peek().kind != "eof" {
			ps.fail("unexpected %q", ps.peek().text)
		}
	}()
	return e, err
}

type parseErr string

func (ps *eparser) fail(f string, a ...interface{}) {
	panic(parseErr(fmt.Sprintf("parse error at %d: ", ps.peek().pos) + fmt.Sprintf(f, a...)))
}
func (ps *eparser) peek() tok { return ps.toks[ps.p] }
func (ps *eparser) next() tok { t := ps.toks[ps.p]; ps.p++; return t }
func (ps *eparser) isOp(s string) bool {
	t := ps.peek()
	return t.kind == "op" && t.text == s
}
func (ps *eparser) accept(s string) bool {
	if ps.isOp(s) {
		ps.p++
		return true
	}
	return false
}
func (ps *eparser) expect(s string) {
	if !ps.accept(s) {
		ps.fail("expected %q, got %q", s, ps.peek().text)
	}
}

func (ps *eparser) parseTop() *Expr {
	t := ps.peek()
	if t.kind == "id" && (t.text == "forall" || t.text == "exists") {
		ps.next()
		e := &Expr{Op: t.text, Pos: t.pos}
		for {
			var names []string
			for {
				n := ps.next()
				if n.kind != "id" {
					ps.fail("expected bound variable name")
				}
				names = append(names, n.text)
				if !ps.accept(",") {
					break
				}
				// lookahead: "x, y int" vs "x int, y int"
			}
			ty := ps.parseTypeText()
			for _, n := range names {
				e.Vars = append(e.Vars, VarDecl{n, ty})
			}
			if !ps.accept(",") {
				break
			}
		}
		ps.expect("::")
		// optional triggers { e, e }
		for ps.isOp("{") {
			ps.next()
			var tr []*Expr
			for {
				tr = append(tr, ps.parseCond())
				if !ps.accept(",") {
					break
				}
			}
			ps.expect("}")
			e.Trig = append(e.Trig, tr)
		}
		e.Args = []*Expr{ps.parseTop()}
		return e
	}
	return ps.parseCond()
}

// parseTypeText reads a Go type in a restricted syntax: [*|[]]* ident[.ident]
func (ps *eparser) parseTypeText() string {
	s := ""
	for {
		if ps.accept("*") {
			s += "*"
		} else if ps.isOp("[") {
			ps.next()
			if ps.peek().kind == "int" {
				s += "[" + ps.next().text + "]"
				ps.expect("]")
			} else {
				ps.expect("]")
				s += "[]"
			}
		} else {
			break
		}
	}
	n := ps.next()
	if n.kind != "id" {
		ps.fail("expected type name")
	}
	s += n.text
	if ps.isOp(".") {
		ps.next()
		m := ps.next()
		s += "." + m.text
	}
	return s
}

func (ps *eparser) parseCond() *Expr {
	c := ps.parseIff()
	if ps.isOp("?") {
		t := ps.next()
		a := ps.parseTop()
		ps.expect(":")
		b := ps.parseTop()
		return &Expr{Op: "cond", Args: []*Expr{c, a, b}, Pos: t.pos}
	}
	return c
}

func (ps *eparser) parseIff() *Expr {
	l := ps.parseImp()
	for ps.isOp("<==>") {
		t := ps.next()
		r := ps.parseImp()
		l = &Expr{Op: "bin", Name: "<==>", Args: []*Expr{l, r}, Pos: t.pos}
	}
	return l
}

func (ps *eparser) parseImp() *Expr {
	l := ps.parseOr()
	if ps.isOp("==>") {
		t := ps.next()
		// right associative; allow quantifier on rhs
		var r *Expr
		if pk := ps.peek(); pk.kind == "id" && (pk.text == "forall" || pk.text == "exists") {
			r = ps.parseTop()
		} else {
			r = ps.parseImp()
		}
		return &Expr{Op: "bin", Name: "==>", Args: []*Expr{l, r}, Pos: t.pos}
	}
	return l
}

func (ps *eparser) parseOr() *Expr {
	l := ps.parseAnd()
	for ps.isOp("||") {
		t := ps.next()
		r := ps.parseAnd()
		l = &Expr{Op: "bin", Name: "||", Args: []*Expr{l, r}, Pos: t.pos}
	}
	return l
}

func (ps *eparser) parseAnd() *Expr {
	l := ps.parseCmp()
	for ps.isOp("&&") {
		t := ps.next()
		var r *Expr
		if pk := ps.peek(); pk.kind == "id" && (pk.text == "forall" || pk.text == "exists") {
			r = ps.parseTop()
		} else {
			r = ps.parseCmp()
		}
		l = &Expr{Op: "bin", Name: "&&", Args: []*Expr{l, r}, Pos: t.pos}
	}
	return l
}

func (ps *eparser) parseCmp() *Expr {
	l := ps.parseAdd()
	for {
		t := ps.peek()
		if t.kind == "op" && (t.text == "==" || t.text == "!=" || t.text == "<" || t.text == "<=" || t.text == ">" || t.text == ">=") {
			ps.next()
			r := ps.parseAdd()
			l = &Expr{Op: "bin", Name: t.text, Args: []*Expr{l, r}, Pos: t.pos}
			continue
		}
		return l
	}
}

func (ps *eparser) parseAdd() *Expr {
	l := ps.parseMul()
	for {
		t := ps.peek()
		if t.kind == "op" && (t.text == "+" || t.text == "-" || t.text == "|") {
			ps.next()
			r := ps.parseMul()
			l = &Expr{Op: "bin", Name: t.text, Args: []*Expr{l, r}, Pos: t.pos}
			continue
		}
		return l
	}
}

func (ps *eparser) parseMul() *Expr {
	l := ps.parseUnary()
	for {
		t := ps.peek()
		if t.kind == "op" && (t.text == "*" || t.text == "/" || t.text == "%" || t.text == "&" || t.text == "<<" || t.text == ">>") {
			ps.next()
			r := ps.parseUnary()
			l = &Expr{Op: "bin", Name: t.text, Args: []*Expr{l, r}, Pos: t.pos}
			continue
		}
		return l
	}
}

func (ps *eparser) parseUnary() *Expr {
	t := ps.peek()
	if t.kind == "op" {
		switch t.text {
		case "!":
			ps.next()
			return &Expr{Op: "un", Name: "!", Args: []*Expr{ps.parseUnary()}, Pos: t.pos}
		case "-":
			ps.next()
			return &Expr{Op: "un", Name: "-", Args: []*Expr{ps.parseUnary()}, Pos: t.pos}
		case "*":
			ps.next()
			return &Expr{Op: "deref", Args: []*Expr{ps.parseUnary()}, Pos: t.pos}
		}
	}
	return ps.parsePostfix()
}

func (ps *eparser) parsePostfix() *Expr {
	e := ps.parsePrimary()
	for {
		t := ps.peek()
		if t.kind != "op" {
			return e
		}
		switch t.text {
		case ".":
			ps.next()
			n := ps.next()
			if n.kind == "op" && n.text == "*" {
				e = &Expr{Op: "sel", Name: "*", Args: []*Expr{e}, Pos: t.pos}
				continue
			}
			if n.kind != "id" {
				ps.fail("expected field name after '.'")
			}
			// qualified call pkg.F(...)
			if e.Op == "id" && ps.isOp("(") {
				name := e.Name + "." + n.text
				ps.next()
				args := ps.parseArgs()
				e = &Expr{Op: "call", Name: name, Args: args, Pos: t.pos}
				continue
			}
			e = &Expr{Op: "sel", Name: n.text, Args: []*Expr{e}, Pos: t.pos}
		case "[":
			ps.next()
			if ps.accept("..") {
				ps.expect("]")
				e = &Expr{Op: "sel", Name: "[..]", Args: []*Expr{e}, Pos: t.pos}
				continue
			}
			var lo, hi *Expr
			if !ps.isOp(":") {
				lo = ps.parseTop()
			}
			if ps.accept(":") {
				if !ps.isOp("]") {
					hi = ps.parseTop()
				}
				ps.expect("]")
				e = &Expr{Op: "slice", Args: []*Expr{e, lo, hi}, Pos: t.pos}
			} else {
				ps.expect("]")
				e = &Expr{Op: "idx", Args: []*Expr{e, lo}, Pos: t.pos}
			}
		default:
			return e
		}
	}
}

func (ps *eparser) parseArgs() []*Expr {
	var args []*Expr
	if ps.accept(")") {
		return args
	}
	for {
		args = append(args, ps.parseTop())
		if ps.accept(")") {
			return args
		}
		ps.expect(",")
	}
}

func (ps *eparser) parsePrimary() *Expr {
	t := ps.next()
	switch t.kind {
	case "int":
		return &Expr{Op: "int", Int: t.text, Pos: t.pos}
	case "str":
		return &Expr{Op: "str", Str: t.text, Pos: t.pos}
	case "real":
		return &Expr{Op: "real", Int: t.text, Pos: t.pos}
	case "id":
		switch t.text {
		case "true", "false":
			return &Expr{Op: "bool", Name: t.text, Pos: t.pos}
		case "nil":
			return &Expr{Op: "nil", Pos: t.pos}
		case "forall", "exists":
			ps.p--
			return ps.parseTop()
		}
		if ps.isOp("(") {
			ps.next()
			args := ps.parseArgs()
			if t.text == "old" {
				if len(args) != 1 {
					ps.fail("old takes one argument")
				}
				return &Expr{Op: "old", Args: args, Pos: t.pos}
			}
			return &Expr{Op: "call", Name: t.text, Args: args, Pos: t.pos}
		}
		return &Expr{Op: "id", Name: t.text, Pos: t.pos}
	case "op":
		if t.text == "(" {
			e := ps.parseTop()
			ps.expect(")")
			return e
		}
	}
	ps.p--
	ps.fail("unexpected %q", t.text)
	return nil
}
