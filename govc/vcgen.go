package main

// Verification-condition generation over go/ssa (NaiveForm): one forward pass over the loop-cut DAG producing a
// passive program (definitions + guarded assumptions) and a list of named obligations.

import (
	"fmt"
	"go/constant"
	"go/token"
	"go/types"
	"sort"
	"strconv"
	"strings"

	"golang.org/x/tools/go/ssa"
)

type unsupportedErr string

func unsupported(f string, a ...interface{}) { panic(unsupportedErr(fmt.Sprintf(f, a...))) }

type modPred func(o Term) Term

type edgeOut struct {
	to   *ssa.BasicBlock
	cond Term
	st   *State
	from *ssa.BasicBlock
}

// inlineFrame: an in-module callee without a contract, without loops, defers or free variables, is executed symbolically at the
// call site (its obligations become obligations of the caller); rets collects its return edges.
type inlineFrame struct {
	fn   *ssa.Function
	rets []inlineRet
}

type inlineRet struct {
	cond Term
	st   *State
	vals []Val
}

type loopInfo struct {
	head    *ssa.BasicBlock
	blocks  map[*ssa.BasicBlock]bool
	ordinal int
	lc      *LoopContract
	// at head
	headState *State
	headReach Term
	inState   *State
	inReach   Term
	variant0  []Term
	hiddenIdx *ssa.Alloc // rangeindex
	iterID    string     // rangeiter
	iterStr   Term
	modPreds  map[string][]modPred // loop-level modifies (evaluated at loop entry); nil if unspecified
	allocIn   Term
}

type FnCtx struct {
	w           *World
	fn          *ssa.Function
	key         string
	contract    *FuncContract
	pkg         *types.Package
	decls       []string
	log         []string
	obls        []*Obligation
	vals        map[ssa.Value]Val
	reach       Term
	st          *State
	entry       *State
	alloc0      Term
	nfresh      int
	outs        map[*ssa.BasicBlock][]edgeOut
	modPreds    map[string][]modPred
	modAll      bool // package initialiser: may write anything it owns
	kindCnt     map[string]int
	paramEV     map[string]EV
	loops       map[*ssa.BasicBlock]*loopInfo
	loopList    []*loopInfo
	curInstr    ssa.Instruction
	isInit      bool
	covers      []*Obligation
	resultNames []string
	returnReach []Term
	blockIns    map[*ssa.BasicBlock][]Term
	blockVias   map[*ssa.BasicBlock][]string
	blockFroms  map[*ssa.BasicBlock][]*ssa.BasicBlock
	curBlock    *ssa.BasicBlock
	logBlk      []int // block index the log entry was generated in (-1: none)
	ancCache    map[*ssa.BasicBlock]map[int]bool
	lastFroms   []*ssa.BasicBlock
	lastChain   []*ssa.BasicBlock
	inlineStack []*inlineFrame
	lastVias    []string
	dropped     map[*Clause]bool
	facts       []Term
}

func (fc *FnCtx) fresh(prefix, sort string) Term {
	fc.nfresh++
	n := fmt.Sprintf("%s!%d", prefix, fc.nfresh)
	fc.decls = append(fc.decls, "(declare-const "+n+" "+sort+")")
	return n
}

func (fc *FnCtx) assumeRaw(t Term) {
	if t == "true" {
		return
	}
	fc.log = append(fc.log, "(assert "+t+")")
	bi := -1
	if fc.curBlock != nil {
		bi = fc.curBlock.Index
	}
	fc.logBlk = append(fc.logBlk, bi)
}

func (fc *FnCtx) assume(t Term) {
	fc.flushFacts()
	if t == "true" {
		return
	}
	fc.assumeRaw(implies(fc.reach, t))
}

func (fc *FnCtx) define(prefix, sort string, t Term) Term {
	if len(t) < 60 {
		return t
	}
	n := fc.fresh(prefix, sort)
	fc.assumeRaw(eq(n, t))
	return n
}

func (fc *FnCtx) pos() token.Position {
	if fc.curInstr != nil {
		if p := fc.curInstr.Pos(); p.IsValid() {
			return fc.w.fset.Position(p)
		}
		// search backwards in the block for a position
		b := fc.curInstr.Block()
		if b != nil {
			seen := false
			for i := len(b.Instrs) - 1; i >= 0; i-- {
				if b.Instrs[i] == fc.curInstr {
					seen = true
				}
				if seen && b.Instrs[i].Pos().IsValid() {
					return fc.w.fset.Position(b.Instrs[i].Pos())
				}
			}
		}
	}
	return fc.w.fset.Position(fc.fn.Pos())
}

func (fc *FnCtx) oblige(kind string, goal Term, text string, tags []string, label string) {
	fc.flushFacts()
	if goal == "true" {
		return
	}
	fc.kindCnt[kind]++
	name := fmt.Sprintf("%s/%s/%d", fc.key, kind, fc.kindCnt[kind])
	if label != "" {
		name += "/" + label
	}
	p := fc.pos()
	o := &Obligation{Name: name, Func: fc.key, Kind: kind, Tags: tags, Label: label, Goal: implies(fc.reach, goal), LogLen: len(fc.log), Pos: p, Text: text}
	fc.blockSlice(o)
	fc.obls = append(fc.obls, o)
	if len(noAssumeKeys) > 0 && noAssumeKeys[clauseKey(o)] {
		return // a clause that is not claimed (never discharged at baseline) is asserted but not assumed afterwards
	}
	fc.assume(goal)
}

// noAssumeKeys: clause keys whose obligations are asserted but NOT assumed afterwards. Assert-then-assume is sound when every
// obligation is discharged; with a claimed subset, a claimed clause must not rest on an unclaimed one, so the unclaimed clauses
// (baseline entries that never discharged, never_claim.txt) are left out of the assumptions, including at loop heads.
var noAssumeKeys = map[string]bool{}

func (fc *FnCtx) clauseNotAssumed(kind, text, label string) bool {
	if len(noAssumeKeys) == 0 {
		return false
	}
	return noAssumeKeys[clauseKey(&Obligation{Func: fc.key, Kind: kind, Label: label, Text: text, Pos: fc.pos()})]
}

// blockSlice: an obligation generated in block b needs only the facts generated in blocks that can reach b (and the unguarded
// ones); it is proved in a session of its own block with exactly those. Dropping assumptions is always sound.
func (fc *FnCtx) blockSlice(o *Obligation) {
	if noSlice || fc.curBlock == nil || o.Slice != nil {
		return
	}
	o.Slice = fc.ancestors(fc.curBlock)
	o.SliceKey = fmt.Sprintf("b%d", fc.curBlock.Index)
}

// obligeNoAssumeRaw records an obligation without assuming it afterwards (the caller assumes once for a whole split).
func (fc *FnCtx) obligeNoAssumeRaw(kind string, goal Term, text string, tags []string, label string) {
	fc.flushFacts()
	if goal == "true" {
		return
	}
	fc.kindCnt[kind]++
	name := fmt.Sprintf("%s/%s/%d", fc.key, kind, fc.kindCnt[kind])
	if label != "" {
		name += "/" + label
	}
	o := &Obligation{Name: name, Func: fc.key, Kind: kind, Tags: tags, Label: label, Goal: implies(fc.reach, goal), LogLen: len(fc.log), Pos: fc.pos(), Text: text}
	fc.blockSlice(o)
	fc.obls = append(fc.obls, o)
}

var safetyTags = []string{"C02"}

func (fc *FnCtx) obligeSafety(kind string, goal Term, text string) {
	fc.oblige(kind, goal, text, safetyTags, "")
}

// ---------------------------------------------------------------------------------------------
// environment for contract expressions at the current program point

func (fc *FnCtx) envAt(st *State, oldEnv *Env, lookup func(string) (EV, bool)) *Env {
	return &Env{w: fc.w, pkg: fc.pkg, vars: map[string]EV{}, st: st, old: oldEnv, alloc0: fc.alloc0, lookup: lookup, facts: &fc.facts}
}

// flushFacts assumes the heap well-formedness facts collected while evaluating contract expressions.
func (fc *FnCtx) flushFacts() {
	seen := map[string]bool{}
	for _, f := range fc.facts {
		if !seen[f] {
			seen[f] = true
			fc.assumeRaw(f)
		}
	}
	fc.facts = nil
}

func (fc *FnCtx) entryEnv() *Env {
	return fc.envAt(fc.entry, nil, func(name string) (EV, bool) {
		ev, ok := fc.paramEV[name]
		return ev, ok
	})
}

// localLookup resolves a name to the current value of a local cell (for loop invariants), falling back to parameters'
// current cells.
func (fc *FnCtx) localLookup(st *State, at token.Pos) func(string) (EV, bool) {
	return func(name string) (EV, bool) {
		// pick the alloc with this name whose declaration position is the closest one not after `at`
		var best *ssa.Alloc
		for a := range st.locals {
			if a.Comment != name {
				continue
			}
			if best == nil {
				best = a
				continue
			}
			ap, bp := a.Pos(), best.Pos()
			if at.IsValid() {
				aOK := !ap.IsValid() || ap <= at
				bOK := !bp.IsValid() || bp <= at
				if aOK && (!bOK || ap > bp) {
					best = a
				}
			} else if ap < bp {
				best = a
			}
		}
		if best == nil {
			// escaping (heap-allocated) named locals: the name denotes the variable's value for scalars and the
			// object itself for library structs such as strings.Builder
			var hb *ssa.Alloc
			for v := range fc.vals {
				a, ok := v.(*ssa.Alloc)
				if !ok || a.Comment != name {
					continue
				}
				if _, isLocal := fc.vals[a].(AddrLocal); isLocal {
					continue
				}
				if hb == nil || (at.IsValid() && a.Pos() <= at && a.Pos() > hb.Pos()) {
					hb = a
				}
			}
			if hb == nil {
				return EV{}, false
			}
			ref, ok := fc.vals[hb].(string)
			if !ok {
				return EV{}, false
			}
			et := hb.Type().(*types.Pointer).Elem()
			if _, isStruct := et.Underlying().(*types.Struct); isStruct {
				return EV{ref, SStruct, et}, true
			}
			if _, isArr := et.Underlying().(*types.Array); isArr {
				return EV{ref, SInt, hb.Type()}, true
			}
			key, bs := fc.w.boxKey(et)
			return EV{sel(st.Heap(key), ref), bs, et}, true
		}
		v := st.locals[best]
		t := best.Type().(*types.Pointer).Elem()
		switch x := v.(type) {
		case string:
			s, ok := sortOf(t)
			if !ok {
				return EV{}, false
			}
			return EV{x, s, t}, true
		}
		return EV{}, false
	}
}

// ---------------------------------------------------------------------------------------------
// values

func (fc *FnCtx) val(v ssa.Value) Val {
	switch x := v.(type) {
	case *ssa.Const:
		return fc.constVal(x)
	case *ssa.Global:
		vv, _ := x.Object().(*types.Var)
		t := x.Type().(*types.Pointer).Elem()
		s, ok := sortOf(t)
		if !ok {
			unsupported("global %s of type %s", x.Name(), t)
		}
		key := "G_" + x.Pkg.Pkg.Name() + "." + strings.ReplaceAll(x.Name(), "$", "S")
		fc.w.regHeap(key, s)
		return AddrGlobal{key, s, vv}
	case *ssa.Function:
		return fc.funcRef(x)
	case *ssa.Builtin:
		unsupported("builtin %s used as a value", x.Name())
	}
	r, ok := fc.vals[v]
	if !ok {
		unsupported("value %s (%T) used before definition", v.Name(), v)
	}
	return r
}

func (fc *FnCtx) funcRef(f *ssa.Function) Term {
	id := fc.w.funcID(shortFuncKey(f))
	return fmt.Sprintf("(fnref %d)", id)
}

func (fc *FnCtx) constVal(c *ssa.Const) Val {
	t := c.Type()
	if c.Value == nil {
		// zero value / nil
		return fc.zeroVal(t)
	}
	switch c.Value.Kind() {
	case constant.Bool:
		if constant.BoolVal(c.Value) {
			return "true"
		}
		return "false"
	case constant.String:
		return fc.w.lits.Get(constant.StringVal(c.Value))
	case constant.Int:
		if b, ok := t.Underlying().(*types.Basic); ok && b.Info()&types.IsFloat != 0 {
			return realLit(float64(c.Int64()))
		}
		return intLitStr(c.Value.ExactString())
	case constant.Float:
		f, _ := constant.Float64Val(c.Value)
		return realLit(f)
	}
	unsupported("constant %s", c)
	return nil
}

func (fc *FnCtx) zeroVal(t types.Type) Val {
	if st, ok := t.Underlying().(*types.Struct); ok {
		sv := StructVal{t: t}
		for i := 0; i < st.NumFields(); i++ {
			sv.f = append(sv.f, fc.zeroVal(st.Field(i).Type()))
		}
		return sv
	}
	if tu, ok := t.Underlying().(*types.Tuple); ok {
		var tv TupleVal
		for i := 0; i < tu.Len(); i++ {
			tv = append(tv, fc.zeroVal(tu.At(i).Type()))
		}
		return tv
	}
	s, ok := sortOf(t)
	if !ok {
		unsupported("zero value of type %s", t)
	}
	return zeroOfSort(s)
}

func (fc *FnCtx) term(v ssa.Value) Term {
	x := fc.val(v)
	return fc.asTerm(x, v.Type())
}

// asTerm converts a Val to a single term (pointers that are static addresses become refs when possible).
func (fc *FnCtx) asTerm(x Val, t types.Type) Term {
	switch a := x.(type) {
	case string:
		return a
	case AddrField:
		s, _ := structOf(a.st)
		ft := s.Field(a.idx).Type()
		if _, isStruct := ft.Underlying().(*types.Struct); isStruct {
			return app("emb", a.ref, strconv.Itoa(a.idx))
		}
		unsupported("address of scalar field %s.%s escapes", typeName(a.st), s.Field(a.idx).Name())
	case AddrGlobal:
		unsupported("address of global %s escapes", a.key)
	case AddrLocal:
		unsupported("address of local %s escapes", a.a.Comment)
	case AddrElem:
		unsupported("address of element escapes")
	}
	unsupported("value of type %s (%T) has no single-term form", t, x)
	return ""
}

// fresh symbolic value of a Go type, with the type's invariants assumed.
func (fc *FnCtx) havocVal(prefix string, t types.Type) Val {
	if st, ok := t.Underlying().(*types.Struct); ok {
		sv := StructVal{t: t}
		for i := 0; i < st.NumFields(); i++ {
			sv.f = append(sv.f, fc.havocVal(prefix+"_"+st.Field(i).Name(), st.Field(i).Type()))
		}
		return sv
	}
	if tu, ok := t.(*types.Tuple); ok {
		var tv TupleVal
		for i := 0; i < tu.Len(); i++ {
			tv = append(tv, fc.havocVal(fmt.Sprintf("%s_%d", prefix, i), tu.At(i).Type()))
		}
		return tv
	}
	s, ok := sortOf(t)
	if !ok {
		unsupported("value of type %s", t)
	}
	n := fc.fresh(prefix, s)
	fc.assumeTypeInv(n, t)
	return n
}

// assumeTypeInv assumes the representation invariant of a value of Go type t (integer range, allocated refs).
func (fc *FnCtx) assumeTypeInv(x Term, t types.Type) {
	if inv := fc.typeInv(x, t, fc.st.alloc); inv != "true" {
		fc.assume(inv)
	}
}

func (fc *FnCtx) typeInv(x Term, t types.Type, alloc Term) Term {
	if lo, hi, ok := intRange(t); ok {
		return and(app("<=", lo, x), app("<=", x, hi))
	}
	if b, ok := t.Underlying().(*types.Basic); ok && b.Info()&types.IsString != 0 {
		// strings that enter a function (parameters, loads, call results) are shorter than 2^40 bytes
		return app("<=", app("slen", x), "1099511627776")
	}
	switch u := t.Underlying().(type) {
	case *types.Pointer:
		return and(app("<", x, alloc), implies(app("<", x, "0"), app("<", app("embroot", x), alloc)))
	case *types.Signature:
		return app("<", x, alloc)
	case *types.Map, *types.Interface:
		return and(app("<=", "0", x), app("<", x, alloc))
	case *types.Slice:
		_ = u
		return and(app("<=", "0", sarrOf(x)), app("<", sarrOf(x), alloc), app("<=", "0", soffOf(x)),
			app("<=", "0", slenOf(x)), app("<=", slenOf(x), scapOf(x)), app("<=", scapOf(x), "281474976710656"),
			implies(eq(sarrOf(x), "0"), eq(scapOf(x), "0")))
	}
	return "true"
}

// ---------------------------------------------------------------------------------------------
// memory access

func (fc *FnCtx) nilCheck(ref Term, what string) {
	fc.obligeSafety("nil", not(eq(ref, "0")), "nil dereference: "+what)
}

func (fc *FnCtx) frameCheck(key string, obj Term, what string) {
	if fc.isInit {
		return
	}
	var alts []Term
	if obj != "" {
		// object 0 (nil) is never actually written: every store through it is guarded by a nil/bounds obligation
		alts = append(alts, app("isfresh", obj, fc.alloc0), eq(obj, "0"))
	}
	for _, p := range fc.modPreds[key] {
		alts = append(alts, p(obj))
	}
	goal := or(alts...)
	tags := []string{"C13", "C14"}
	fc.oblige("frame", goal, "write to "+key+" outside the declared modifies set: "+what, tags, "")
	// loop-level frames
	for _, li := range fc.loopList {
		if li.modPreds == nil || !li.blocks[fc.curInstr.Block()] {
			continue
		}
		var la []Term
		if obj != "" {
			la = append(la, app("isfresh", obj, li.allocIn), eq(obj, "0"))
		}
		for _, p := range li.modPreds[key] {
			la = append(la, p(obj))
		}
		fc.oblige("loopframe", or(la...), fmt.Sprintf("write to %s outside loop %d's modifies set: %s", key, li.ordinal, what), tags, "")
	}
}

func (fc *FnCtx) loadField(ref Term, st types.Type, idx int) Val {
	s, _ := structOf(st)
	f := s.Field(idx)
	if inner, ok := f.Type().Underlying().(*types.Struct); ok {
		sv := StructVal{t: f.Type()}
		er := app("emb", ref, strconv.Itoa(idx))
		for i := 0; i < inner.NumFields(); i++ {
			sv.f = append(sv.f, fc.loadField(er, f.Type(), i))
		}
		return sv
	}
	key, _ := fc.w.fieldKey(st, f)
	t := sel(fc.st.Heap(key), ref)
	fc.assumeTypeInv(t, f.Type())
	return t
}

func (fc *FnCtx) storeField(ref Term, st types.Type, idx int, v Val, frame bool) {
	s, _ := structOf(st)
	f := s.Field(idx)
	if inner, ok := f.Type().Underlying().(*types.Struct); ok {
		sv, ok := v.(StructVal)
		if !ok {
			unsupported("store of non-struct value into struct field")
		}
		er := app("emb", ref, strconv.Itoa(idx))
		for i := 0; i < inner.NumFields(); i++ {
			fc.storeField(er, f.Type(), i, sv.f[i], frame)
		}
		return
	}
	key, _ := fc.w.fieldKey(st, f)
	if frame {
		fc.frameCheck(key, ref, typeName(st)+"."+f.Name())
	}
	fc.setHeap(key, store(fc.st.Heap(key), ref, fc.asTerm(v, f.Type())))
}

func (fc *FnCtx) load(addr Val, ptrType types.Type) Val {
	et := ptrType.Underlying().(*types.Pointer).Elem()
	switch a := addr.(type) {
	case AddrLocal:
		v := fc.st.locals[a.a]
		if v == nil {
			unsupported("load from uninitialised local %s", a.a.Comment)
		}
		for _, i := range a.path {
			sv, ok := v.(StructVal)
			if !ok {
				unsupported("field path into non-struct local")
			}
			v = sv.f[i]
		}
		return v
	case AddrField:
		fc.nilCheck(a.ref, "field read")
		return fc.loadField(a.ref, a.st, a.idx)
	case AddrElem:
		t := sel(sel(fc.st.Heap(a.key), a.arr), a.idx)
		fc.assumeTypeInv(t, et)
		return t
	case AddrGlobal:
		t := fc.st.Heap(a.key)
		fc.assumeTypeInv(t, et)
		return t
	case string:
		fc.nilCheck(a, "pointer read")
		switch u := et.Underlying().(type) {
		case *types.Struct:
			sv := StructVal{t: et}
			for i := 0; i < u.NumFields(); i++ {
				sv.f = append(sv.f, fc.loadField(a, et, i))
			}
			return sv
		case *types.Array:
			key, _ := fc.w.elemKey(u.Elem())
			return sel(fc.st.Heap(key), a)
		}
		key, _ := fc.w.boxKey(et)
		t := sel(fc.st.Heap(key), a)
		fc.assumeTypeInv(t, et)
		return t
	}
	unsupported("load through %T", addr)
	return nil
}

func setPath(v Val, path []int, nv Val) Val {
	if len(path) == 0 {
		return nv
	}
	sv := v.(StructVal)
	nf := make([]Val, len(sv.f))
	copy(nf, sv.f)
	nf[path[0]] = setPath(sv.f[path[0]], path[1:], nv)
	return StructVal{t: sv.t, f: nf}
}

func (fc *FnCtx) storeTo(addr Val, ptrType types.Type, v Val) {
	et := ptrType.Underlying().(*types.Pointer).Elem()
	switch a := addr.(type) {
	case AddrLocal:
		if len(a.path) == 0 {
			fc.st.locals[a.a] = v
		} else {
			fc.st.locals[a.a] = setPath(fc.st.locals[a.a], a.path, v)
		}
	case AddrField:
		fc.nilCheck(a.ref, "field write")
		fc.storeField(a.ref, a.st, a.idx, v, true)
	case AddrElem:
		fc.frameCheck(a.key, a.arr, "element write")
		h := fc.define("h", fc.w.heapSorts[a.key], fc.st.Heap(a.key))
		fc.setHeap(a.key, store(h, a.arr, store(sel(h, a.arr), a.idx, fc.asTerm(v, et))))
	case AddrGlobal:
		if !fc.isInit {
			var alts []Term
			for _, p := range fc.modPreds[a.key] {
				alts = append(alts, p(""))
			}
			fc.oblige("frame", or(alts...), "write to package variable "+a.key, []string{"C13", "C14"}, "")
		}
		fc.setHeap(a.key, fc.asTerm(v, et))
	case string:
		fc.nilCheck(a, "pointer write")
		switch u := et.Underlying().(type) {
		case *types.Struct:
			sv, ok := v.(StructVal)
			if !ok {
				unsupported("store of non-struct value through struct pointer")
			}
			for i := 0; i < u.NumFields(); i++ {
				fc.storeField(a, et, i, sv.f[i], true)
			}
			return
		case *types.Array:
			key, _ := fc.w.elemKey(u.Elem())
			fc.frameCheck(key, a, "array write")
			fc.setHeap(key, store(fc.st.Heap(key), a, fc.asTerm(v, et)))
			return
		}
		key, _ := fc.w.boxKey(et)
		fc.frameCheck(key, a, "pointer write")
		fc.setHeap(key, store(fc.st.Heap(key), a, fc.asTerm(v, et)))
	default:
		unsupported("store through %T", addr)
	}
}

// setHeap installs a new version of a heap component, naming long terms so that later uses stay small.
func (fc *FnCtx) setHeap(key string, t Term) {
	if len(t) > 160 {
		n := fc.fresh(sanitize(key), fc.w.heapSorts[key])
		fc.assumeRaw(eq(n, t))
		t = n
	}
	fc.st.heap[key] = t
}

func (fc *FnCtx) newRef() Term {
	r := fc.fresh("ref", SInt)
	fc.assumeRaw(eq(r, fc.st.alloc))
	na := fc.fresh("alloc", SInt)
	fc.assumeRaw(eq(na, app("+", fc.st.alloc, "1")))
	fc.st.alloc = na
	return r
}

// allocObject allocates a heap object of type t, zero-initialised, and returns its ref.
func (fc *FnCtx) allocObject(t types.Type) Term {
	r := fc.newRef()
	fc.zeroInit(r, t)
	return r
}

func (fc *FnCtx) zeroInit(r Term, t types.Type) {
	switch u := t.Underlying().(type) {
	case *types.Struct:
		if isOpaqueLib(t) {
			fc.zeroOpaque(r, t)
			return
		}
		for i := 0; i < u.NumFields(); i++ {
			f := u.Field(i)
			if _, ok := f.Type().Underlying().(*types.Struct); ok {
				if isOpaqueLib(f.Type()) {
					fc.zeroOpaque(app("emb", r, strconv.Itoa(i)), f.Type())
				} else {
					fc.zeroInit(app("emb", r, strconv.Itoa(i)), f.Type())
				}
				continue
			}
			key, fs := fc.w.fieldKey(t, f)
			fc.setHeap(key, store(fc.st.Heap(key), r, zeroOfSort(fs)))
		}
	case *types.Array:
		key, es := fc.w.elemKey(u.Elem())
		fc.setHeap(key, store(fc.st.Heap(key), r, zeroOfSort(arrSort(es))))
	default:
		key, s := fc.w.boxKey(t)
		fc.setHeap(key, store(fc.st.Heap(key), r, zeroOfSort(s)))
	}
}

// structToHeap writes a struct value into the (fresh, temporary) object r without frame checks, so that contract
// expressions can address its fields.
func (fc *FnCtx) structToHeap(r Term, t types.Type, sv StructVal) {
	st := t.Underlying().(*types.Struct)
	for i := 0; i < st.NumFields(); i++ {
		fc.storeField(r, t, i, sv.f[i], false)
	}
}

func isOpaqueLib(t types.Type) bool {
	n, ok := t.(*types.Named)
	if !ok {
		return false
	}
	if n.Obj().Pkg() == nil {
		return false
	}
	switch n.Obj().Pkg().Path() + "." + n.Obj().Name() {
	case "strings.Builder":
		return true
	}
	return false
}

func (fc *FnCtx) zeroOpaque(r Term, t types.Type) {
	switch typeName(t) {
	case "strings.Builder":
		fc.setHeap(keyBuilder, store(fc.st.Heap(keyBuilder), r, "lit_empty"))
	}
}

// ---------------------------------------------------------------------------------------------
// instructions

var debugSizes func(fc *FnCtx)
var dbgCount int

func (fc *FnCtx) instr(in ssa.Instruction) {
	fc.curInstr = in
	if debugSizes != nil {
		dbgCount++
		if dbgCount%50 == 0 {
			debugSizes(fc)
		}
	}
	switch x := in.(type) {
	case *ssa.DebugRef:
		return
	case *ssa.RunDefers:
		return
	case *ssa.Alloc:
		et := x.Type().(*types.Pointer).Elem()
		if x.Heap {
			fc.vals[x] = fc.allocObject(et)
		} else {
			if isOpaqueLib(et) {
				// treat like a heap object so that methods can be called on it
				fc.vals[x] = fc.allocObject(et)
				return
			}
			fc.st.locals[x] = fc.zeroVal(et)
			fc.vals[x] = AddrLocal{a: x}
		}
	case *ssa.Store:
		fc.storeTo(fc.val(x.Addr), x.Addr.Type(), fc.val(x.Val))
	case *ssa.UnOp:
		fc.vals[x] = fc.unop(x)
	case *ssa.BinOp:
		fc.vals[x] = fc.binop(x)
	case *ssa.Phi:
		fc.vals[x] = fc.phi(x)
	case *ssa.Call:
		r := fc.call(x)
		if r != nil {
			fc.vals[x] = r
		}
	case *ssa.ChangeType:
		fc.vals[x] = fc.val(x.X)
	case *ssa.ChangeInterface:
		fc.vals[x] = fc.val(x.X)
	case *ssa.Convert:
		fc.vals[x] = fc.convert(x)
	case *ssa.MakeInterface:
		fc.vals[x] = fc.makeInterface(x)
	case *ssa.Extract:
		tv, ok := fc.val(x.Tuple).(TupleVal)
		if !ok {
			unsupported("extract from non-tuple")
		}
		fc.vals[x] = tv[x.Index]
	case *ssa.FieldAddr:
		fc.vals[x] = fc.fieldAddr(x)
	case *ssa.Field:
		sv, ok := fc.val(x.X).(StructVal)
		if !ok {
			unsupported("field of non-struct value")
		}
		fc.vals[x] = sv.f[x.Field]
	case *ssa.IndexAddr:
		fc.vals[x] = fc.indexAddr(x)
	case *ssa.Index:
		a := fc.term(x.X)
		i := fc.term(x.Index)
		if _, isStr := x.X.Type().Underlying().(*types.Basic); isStr {
			fc.obligeSafety("idx", and(app("<=", "0", i), app("<", i, app("slen", a))), "string index in range")
			fc.vals[x] = app("sat", a, i)
			return
		}
		n := x.X.Type().Underlying().(*types.Array).Len()
		fc.obligeSafety("idx", and(app("<=", "0", i), app("<", i, strconv.FormatInt(n, 10))), "array index in range")
		fc.vals[x] = sel(a, i)
	case *ssa.Lookup:
		fc.vals[x] = fc.lookup(x)
	case *ssa.Slice:
		fc.vals[x] = fc.slice(x)
	case *ssa.MakeSlice:
		fc.vals[x] = fc.makeSlice(x)
	case *ssa.MakeMap:
		r := fc.newRef()
		fc.vals[x] = r
	case *ssa.MapUpdate:
		fc.mapUpdate(x)
	case *ssa.MakeClosure:
		fc.vals[x] = fc.makeClosure(x)
	case *ssa.Range:
		fc.vals[x] = fc.rangeInstr(x)
	case *ssa.Next:
		fc.vals[x] = fc.next(x)
	case *ssa.TypeAssert:
		fc.vals[x] = fc.typeAssert(x)
	case *ssa.Panic:
		fc.obligeSafety("panic", "false", "explicit panic reachable")
	case *ssa.If, *ssa.Jump, *ssa.Return:
		// handled by the block driver
	default:
		unsupported("instruction %T (%s)", in, in)
	}
}

func (fc *FnCtx) unop(x *ssa.UnOp) Val {
	switch x.Op {
	case token.MUL:
		return fc.load(fc.val(x.X), x.X.Type())
	case token.NOT:
		return not(fc.term(x.X))
	case token.SUB:
		t := fc.term(x.X)
		if s, _ := sortOf(x.Type()); s == SReal {
			return app("-", t)
		}
		return fc.wrapInt(app("-", t), x.Type(), "neg")
	case token.XOR:
		t := fc.term(x.X)
		bits, signed := intBits(x.Type())
		if signed {
			return app("-", app("-", t), "1")
		}
		return app("-", app("-", pow2(bits), "1"), t)
	}
	unsupported("unary operator %s", x.Op)
	return nil
}

// wrapInt applies the overflow discipline: obligations for int/int64, modular wrap for other widths.
func (fc *FnCtx) wrapInt(t Term, typ types.Type, what string) Term {
	bits, signed := intBits(typ)
	if bits == 0 {
		return t
	}
	if signed && bits == 64 {
		d := fc.define("ar", SInt, t)
		fc.obligeSafety("ovf", and(app("<=", "(- 9223372036854775808)", d), app("<=", d, "9223372036854775807")), "int overflow in "+what)
		return d
	}
	if !signed {
		return fc.define("ar", SInt, app("mod", t, pow2(bits)))
	}
	half := pow2(bits - 1)
	return fc.define("ar", SInt, app("-", app("mod", app("+", t, half), pow2(bits)), half))
}

func (fc *FnCtx) binop(x *ssa.BinOp) Val {
	xt := x.X.Type()
	s, ok := sortOf(xt)
	if !ok {
		unsupported("binary operation on %s", xt)
	}
	a := fc.term(x.X)
	b := fc.term(x.Y)
	switch x.Op {
	case token.EQL, token.NEQ:
		var t Term
		if s == SStr {
			t = strEq(a, b)
		} else if s == SSlice {
			// only comparison with nil is legal Go
			if c, ok := x.Y.(*ssa.Const); ok && c.Value == nil {
				t = eq(sarrOf(a), "0")
			} else if c, ok := x.X.(*ssa.Const); ok && c.Value == nil {
				t = eq(sarrOf(b), "0")
			} else {
				unsupported("slice comparison")
			}
		} else {
			t = eq(a, b)
		}
		if x.Op == token.NEQ {
			t = not(t)
		}
		return t
	case token.LSS, token.LEQ, token.GTR, token.GEQ:
		if s == SStr {
			switch x.Op {
			case token.LSS:
				return app("strlt", a, b)
			case token.GTR:
				return app("strlt", b, a)
			case token.LEQ:
				return not(app("strlt", b, a))
			default:
				return not(app("strlt", a, b))
			}
		}
		return app(x.Op.String(), a, b)
	case token.ADD:
		if s == SStr {
			return fc.define("cat", SStr, app("scat", a, b))
		}
		if s == SReal {
			return app("+", a, b)
		}
		return fc.wrapInt(app("+", a, b), x.Type(), "+")
	case token.SUB:
		if s == SReal {
			return app("-", a, b)
		}
		return fc.wrapInt(app("-", a, b), x.Type(), "-")
	case token.MUL:
		if s == SReal {
			return app("*", a, b)
		}
		return fc.wrapInt(app("*", a, b), x.Type(), "*")
	case token.QUO:
		if s == SReal {
			return app("/", a, b)
		}
		fc.obligeSafety("div0", not(eq(b, "0")), "division by zero")
		// Go truncates toward zero
		q := ite(app(">=", a, "0"), ite(app(">", b, "0"), app("div", a, b), app("-", app("div", a, app("-", b)))),
			ite(app(">", b, "0"), app("-", app("div", app("-", a), b)), app("div", app("-", a), app("-", b))))
		return fc.define("quo", SInt, q)
	case token.REM:
		fc.obligeSafety("div0", not(eq(b, "0")), "division by zero")
		r := ite(app(">=", a, "0"), app("mod", a, app("abs", b)), app("-", app("mod", app("-", a), app("abs", b))))
		return fc.define("rem", SInt, r)
	case token.AND:
		if s == SBool {
			return and(a, b)
		}
		return fc.define("band", SInt, bitop("&", a, b))
	case token.OR:
		if s == SBool {
			return or(a, b)
		}
		// (x << k) | y with y < 2^k is addition; general case uninterpreted
		return fc.define("bor", SInt, fc.bitOr(x, a, b))
	case token.SHL:
		return fc.wrapInt(bitop("<<", a, b), x.Type(), "<<")
	case token.SHR:
		return fc.define("shr", SInt, bitop(">>", a, b))
	case token.XOR, token.AND_NOT:
		return app("bit_"+strings.ToLower(x.Op.String()), a, b)
	}
	unsupported("binary operator %s", x.Op)
	return nil
}

func (fc *FnCtx) bitOr(x *ssa.BinOp, a, b Term) Term {
	// recognise (u << k) | v
	if sh, ok := x.X.(*ssa.BinOp); ok && sh.Op == token.SHL {
		if c, ok := sh.Y.(*ssa.Const); ok && c.Value != nil {
			if k, ok := constant.Int64Val(c.Value); ok && k > 0 && k < 62 {
				lim := strconv.FormatInt(int64(1)<<uint(k), 10)
				return ite(and(app("<=", "0", b), app("<", b, lim), eq(app("mod", a, lim), "0")), app("+", a, b), app("bit_or", a, b))
			}
		}
	}
	return app("bit_or", a, b)
}

func (fc *FnCtx) phi(x *ssa.Phi) Val {
	b := x.Block()
	s, ok := sortOf(x.Type())
	if !ok {
		unsupported("phi of type %s", x.Type())
	}
	// edge conditions were recorded by the block driver in fc.phiConds
	conds := fc.phiConds(b)
	var t Term
	for i := len(x.Edges) - 1; i >= 0; i-- {
		if conds[i] == "" {
			continue // back edge / unreachable pred
		}
		v := fc.term(x.Edges[i])
		if t == "" {
			t = v
		} else {
			t = ite(conds[i], v, t)
		}
	}
	if t == "" {
		unsupported("phi without processed predecessors")
	}
	return fc.define("phi", s, t)
}

func (fc *FnCtx) phiConds(b *ssa.BasicBlock) []Term {
	conds := make([]Term, len(b.Preds))
	for i, p := range b.Preds {
		for _, eo := range fc.outs[p] {
			if eo.to == b {
				conds[i] = eo.cond
			}
		}
	}
	return conds
}

func (fc *FnCtx) fieldAddr(x *ssa.FieldAddr) Val {
	base := fc.val(x.X)
	pt := x.X.Type().Underlying().(*types.Pointer).Elem()
	switch a := base.(type) {
	case AddrLocal:
		return AddrLocal{a: a.a, path: append(append([]int{}, a.path...), x.Field)}
	case AddrField:
		// nested struct field
		return AddrField{ref: app("emb", a.ref, strconv.Itoa(a.idx)), st: pt, idx: x.Field}
	case string:
		if isOpaqueLib(pt) {
			unsupported("field access into opaque library type %s", pt)
		}
		return AddrField{ref: a, st: pt, idx: x.Field}
	}
	unsupported("field address of %T", base)
	return nil
}

func (fc *FnCtx) indexAddr(x *ssa.IndexAddr) Val {
	i := fc.term(x.Index)
	switch u := x.X.Type().Underlying().(type) {
	case *types.Slice:
		s := fc.term(x.X)
		fc.obligeSafety("idx", and(app("<=", "0", i), app("<", i, slenOf(s))), "slice index in range")
		key, _ := fc.w.elemKey(u.Elem())
		return AddrElem{key: key, arr: sarrOf(s), idx: sidx(soffOf(s), i)}
	case *types.Pointer:
		arr, ok := u.Elem().Underlying().(*types.Array)
		if !ok {
			unsupported("IndexAddr on pointer to %s", u.Elem())
		}
		base := fc.val(x.X)
		ref, ok := base.(string)
		if !ok {
			unsupported("IndexAddr on local array")
		}
		fc.nilCheck(ref, "array pointer")
		fc.obligeSafety("idx", and(app("<=", "0", i), app("<", i, strconv.FormatInt(arr.Len(), 10))), "array index in range")
		key, _ := fc.w.elemKey(arr.Elem())
		return AddrElem{key: key, arr: ref, idx: i}
	}
	unsupported("IndexAddr on %s", x.X.Type())
	return nil
}

func (fc *FnCtx) lookup(x *ssa.Lookup) Val {
	switch u := x.X.Type().Underlying().(type) {
	case *types.Basic: // string index
		s := fc.term(x.X)
		i := fc.term(x.Index)
		fc.obligeSafety("idx", and(app("<=", "0", i), app("<", i, app("slen", s))), "string index in range")
		t := app("sat", s, i)
		return t
	case *types.Map:
		m := fc.term(x.X)
		k := fc.term(x.Index)
		ks, _ := sortOf(u.Key())
		vs, _ := sortOf(u.Elem())
		if ks != SStr || vs != SStr {
			unsupported("map lookup on %s", u)
		}
		has := app("maphas_Str", m, k)
		// a nil map has no keys
		fc.assume(implies(eq(m, "0"), not(has)))
		v := ite(has, app("mapval_Str_Str", m, k), "lit_empty")
		if x.CommaOk {
			return TupleVal{v, has}
		}
		return v
	}
	unsupported("lookup on %s", x.X.Type())
	return nil
}

func (fc *FnCtx) slice(x *ssa.Slice) Val {
	var lo, hi Term
	if x.Low != nil {
		lo = fc.term(x.Low)
	} else {
		lo = "0"
	}
	if x.Max != nil {
		unsupported("3-index slice")
	}
	switch u := x.X.Type().Underlying().(type) {
	case *types.Basic:
		s := fc.term(x.X)
		if x.High != nil {
			hi = fc.term(x.High)
		} else {
			hi = app("slen", s)
		}
		fc.obligeSafety("slice", and(app("<=", "0", lo), app("<=", lo, hi), app("<=", hi, app("slen", s))), "string slice bounds")
		return fc.define("sub", SStr, app("ssub", s, lo, hi))
	case *types.Slice:
		s := fc.term(x.X)
		if x.High != nil {
			hi = fc.term(x.High)
		} else {
			hi = slenOf(s)
		}
		fc.obligeSafety("slice", and(app("<=", "0", lo), app("<=", lo, hi), app("<=", hi, scapOf(s))), "slice bounds")
		return app("mkslice", sarrOf(s), plus(soffOf(s), lo), minus(hi, lo), minus(scapOf(s), lo))
	case *types.Pointer:
		arr, ok := u.Elem().Underlying().(*types.Array)
		if !ok {
			unsupported("slice of pointer to %s", u.Elem())
		}
		ref := fc.term(x.X)
		n := strconv.FormatInt(arr.Len(), 10)
		if x.High != nil {
			hi = fc.term(x.High)
		} else {
			hi = n
		}
		fc.obligeSafety("slice", and(app("<=", "0", lo), app("<=", lo, hi), app("<=", hi, n)), "array slice bounds")
		return app("mkslice", ref, lo, minus(hi, lo), minus(n, lo))
	}
	unsupported("slice of %s", x.X.Type())
	return nil
}

func (fc *FnCtx) makeSlice(x *ssa.MakeSlice) Val {
	n := fc.term(x.Len)
	c := fc.term(x.Cap)
	fc.obligeSafety("makeslice", and(app("<=", "0", n), app("<=", n, c)), "makeslice: len out of range")
	et := x.Type().Underlying().(*types.Slice).Elem()
	key, es := fc.w.elemKey(et)
	r := fc.newRef()
	fc.setHeap(key, store(fc.st.Heap(key), r, zeroOfSort(arrSort(es))))
	return app("mkslice", r, "0", n, c)
}

func (fc *FnCtx) mapUpdate(x *ssa.MapUpdate) {
	m := fc.term(x.Map)
	fc.nilCheck(m, "assignment to entry in nil map")
	if !fc.isInit {
		fc.oblige("frame", app("isfresh", m, fc.alloc0), "map update on a pre-existing map", []string{"C13", "C14"}, "")
	}
	// map contents are modelled as immutable uninterpreted functions; record the new binding for fresh maps only
	mt := x.Map.Type().Underlying().(*types.Map)
	ks, _ := sortOf(mt.Key())
	vs, _ := sortOf(mt.Elem())
	if ks == SStr && vs == SStr {
		k := fc.term(x.Key)
		v := fc.term(x.Value)
		fc.assume(and(app("maphas_Str", m, k), strEq(app("mapval_Str_Str", m, k), v)))
	}
}

func (fc *FnCtx) makeClosure(x *ssa.MakeClosure) Val {
	r := fc.newRef()
	f := x.Fn.(*ssa.Function)
	fc.assume(eq(app("closure_fn", r), strconv.Itoa(fc.w.funcID(shortFuncKey(f)))))
	for i, b := range x.Bindings {
		bt := fc.asTerm(fc.val(b), b.Type())
		fc.assume(eq(app("closure_bind", r, strconv.Itoa(i)), bt))
	}
	return r
}

func (fc *FnCtx) rangeInstr(x *ssa.Range) Val {
	switch x.X.Type().Underlying().(type) {
	case *types.Basic:
		id := x.Name() + "@" + strconv.Itoa(x.Block().Index)
		fc.st.iters[id] = "0"
		return IterVal{s: fc.term(x.X), id: id}
	}
	unsupported("range over %s", x.X.Type())
	return nil
}

func (fc *FnCtx) next(x *ssa.Next) Val {
	it, ok := fc.val(x.Iter).(IterVal)
	if !ok {
		unsupported("next on non-string iterator")
	}
	pos := fc.st.iters[it.id]
	okT := app("<", pos, app("slen", it.s))
	r := app("rat", it.s, pos)
	w := app("rwidth", it.s, pos)
	np := fc.define("itpos", SInt, ite(okT, app("+", pos, w), pos))
	fc.st.iters[it.id] = np
	// make the decoding facts available
	fc.assume(implies(okT, and(app("<=", "1", w), app("<=", app("+", pos, w), app("slen", it.s)))))
	return TupleVal{okT, pos, r}
}

func (fc *FnCtx) makeInterface(x *ssa.MakeInterface) Val {
	xt := x.X.Type()
	switch xt.Underlying().(type) {
	case *types.Pointer:
		t := fc.term(x.X)
		fc.assume(implies(not(eq(t, "0")), eq(app("dyntype", t), strconv.Itoa(fc.w.typeID(typeName(xt))))))
		// a nil pointer in an interface is a non-nil interface; refuse to model that silently
		fc.obligeSafety("mkiface", not(eq(t, "0")), "typed nil pointer converted to interface")
		return t
	default:
		// boxed value: a fresh non-nil reference with the value recorded for strings
		r := fc.newRef()
		fc.assume(eq(app("dyntype", r), strconv.Itoa(fc.w.typeID(typeName(xt)))))
		if s, ok := sortOf(xt); ok && s == SStr {
			fc.assume(eq(app("iface_str", r), fc.term(x.X)))
		}
		if s, ok := sortOf(xt); ok && s == SSlice {
			fc.assume(eq(app("iface_slice", r), fc.term(x.X)))
		}
		return r
	}
}

func (fc *FnCtx) typeAssert(x *ssa.TypeAssert) Val {
	v := fc.term(x.X)
	var okT Term
	if it, isIface := x.AssertedType.Underlying().(*types.Interface); isIface {
		iid := strconv.Itoa(fc.w.typeID("iface:" + shortenPaths(x.AssertedType.String())))
		okT = and(not(eq(v, "0")), app("implements", app("dyntype", v), iid))
		// method-set facts for the named types of the verified packages (decided by go/types)
		for _, name := range []string{"errors", "url", "canonicalizer"} {
			pk := fc.w.typePkgs[name]
			if pk == nil {
				continue
			}
			for _, n := range pk.Scope().Names() {
				tn, ok := pk.Scope().Lookup(n).(*types.TypeName)
				if !ok {
					continue
				}
				if _, isI := tn.Type().Underlying().(*types.Interface); isI {
					continue
				}
				for _, T := range []types.Type{tn.Type(), types.NewPointer(tn.Type())} {
					b := "false"
					if types.Implements(T, it) {
						b = "true"
					}
					fc.assumeRaw(eq(app("implements", strconv.Itoa(fc.w.typeID(typeName(T))), iid), b))
				}
			}
		}
	} else {
		okT = and(not(eq(v, "0")), eq(app("dyntype", v), strconv.Itoa(fc.w.typeID(typeName(x.AssertedType)))))
	}
	if x.CommaOk {
		return TupleVal{ite(okT, v, "0"), okT}
	}
	fc.obligeSafety("assert-type", okT, "type assertion may fail")
	return v
}

func (fc *FnCtx) convert(x *ssa.Convert) Val {
	from := x.X.Type()
	to := x.Type()
	fs, _ := sortOf(from)
	ts, _ := sortOf(to)
	switch {
	case fs == SInt && ts == SInt:
		t := fc.term(x.X)
		flo, fhi, ok1 := intRange(from)
		tlo, thi, ok2 := intRange(to)
		if !ok1 || !ok2 {
			return t // pointer-ish conversions (unsafe) are rejected elsewhere
		}
		if rangeWithin(flo, fhi, tlo, thi) {
			return t
		}
		bits, signed := intBits(to)
		if !signed {
			return fc.define("cv", SInt, app("mod", t, pow2(bits)))
		}
		half := pow2(bits - 1)
		return fc.define("cv", SInt, app("-", app("mod", app("+", t, half), pow2(bits)), half))
	case fs == SStr && ts == SStr:
		return fc.term(x.X)
	case fs == SStr && ts == SSlice:
		s := fc.term(x.X)
		et := to.Underlying().(*types.Slice).Elem()
		key, _ := fc.w.elemKey(et)
		r := fc.newRef()
		if b, ok := et.Underlying().(*types.Basic); ok && b.Kind() == types.Uint8 {
			fc.setHeap(key, store(fc.st.Heap(key), r, app("sbytes", s)))
			return app("mkslice", r, "0", app("slen", s), app("slen", s))
		}
		fc.setHeap(key, store(fc.st.Heap(key), r, app("srunes", s)))
		return app("mkslice", r, "0", app("rcount", s), app("rcount", s))
	case fs == SSlice && ts == SStr:
		s := fc.term(x.X)
		et := from.Underlying().(*types.Slice).Elem()
		key, _ := fc.w.elemKey(et)
		content := sel(fc.st.Heap(key), sarrOf(s))
		if b, ok := et.Underlying().(*types.Basic); ok && b.Kind() == types.Uint8 {
			return fc.define("sob", SStr, app("str_of_bytes", content, soffOf(s), slenOf(s)))
		}
		return fc.define("sor", SStr, app("str_of_runes", content, soffOf(s), slenOf(s)))
	case fs == SInt && ts == SStr:
		return app("utf8", fc.term(x.X))
	case fs == SInt && ts == SReal:
		return app("to_real", fc.term(x.X))
	case fs == SReal && ts == SInt:
		t := fc.term(x.X)
		// Go truncates toward zero; to_int floors. Only non-negative values are exact here.
		fc.obligeSafety("conv", app(">=", t, "0.0"), "float to int conversion of a possibly negative value")
		return fc.wrapInt(app("to_int", t), to, "float conversion")
	case fs == SReal && ts == SReal:
		return fc.term(x.X)
	}
	unsupported("conversion %s -> %s", from, to)
	return nil
}

func rangeWithin(flo, fhi, tlo, thi string) bool {
	p := func(s string) (neg bool, mag string) {
		if strings.HasPrefix(s, "(- ") {
			return true, s[3 : len(s)-1]
		}
		return false, s
	}
	cmp := func(a, b string) int { // compare signed decimal strings
		an, am := p(a)
		bn, bm := p(b)
		if an != bn {
			if an {
				return -1
			}
			return 1
		}
		c := 0
		if len(am) != len(bm) {
			if len(am) < len(bm) {
				c = -1
			} else {
				c = 1
			}
		} else {
			c = strings.Compare(am, bm)
		}
		if an {
			return -c
		}
		return c
	}
	return cmp(flo, tlo) >= 0 && cmp(fhi, thi) <= 0
}

// ---------------------------------------------------------------------------------------------
// sorted helpers

func sortedKeys(m map[string]bool) []string {
	var ks []string
	for k := range m {
		ks = append(ks, k)
	}
	sort.Strings(ks)
	return ks
}
