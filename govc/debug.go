package main

import (
	"fmt"
	"os"
	"runtime/pprof"
	"strconv"
	"time"
)

func init() {
	if os.Getenv("GOVC_DEBUG_SIZES") != "" {
		debugSizes = func(fc *FnCtx) {
			n := 0
			mx := 0
			for _, l := range fc.log {
				n += len(l)
				if len(l) > mx {
					mx = len(l)
				}
			}
			hs := 0
			for _, t := range fc.st.heap {
				hs += len(t)
			}
			fmt.Fprintf(os.Stderr, "log entries=%d bytes=%d max=%d heapTermBytes=%d decls=%d\n", len(fc.log), n, mx, hs, len(fc.decls))
		}
	}
}

func init() {
	if d := os.Getenv("GOVC_DUMP_AFTER"); d != "" {
		go func() {
			n, _ := strconv.Atoi(d)
			time.Sleep(time.Duration(n) * time.Second)
			pprof.Lookup("goroutine").WriteTo(os.Stderr, 2)
			os.Exit(3)
		}()
	}
}
