package main

// Calls: builtins, modular application of callee contracts, modifies clauses, static write-set analysis.

import (
	"fmt"
	"go/token"
	"go/types"
	"os"
	"sort"
	"strconv"
	"strings"

	"golang.org/x/tools/go/ssa"
)

type modEntry struct {
	key    string
	pred   modPred // membership of an object in the entry
	single Term    // the single object, if the entry denotes exactly one ("" for regions / globals)
	global bool
	guard  Term // the entry is void unless this holds (a nil pointer on the access path denotes no location)
}

// refSet is a set of object references denoted by the base of a location expression.
type refSet struct {
	pred   modPred
	single Term
	typ    types.Type // pointer-to-struct / struct type of the objects
}

func singleRef(r Term, t types.Type) refSet {
	return refSet{pred: func(o Term) Term { return eq(o, r) }, single: r, typ: t}
}

// defGuard: every pointer dereferenced on the access path of a location expression is non-nil.
func (env *Env) defGuard(e *Expr) Term {
	var conj []Term
	var walk func(x *Expr)
	walk = func(x *Expr) {
		if x == nil {
			return
		}
		switch x.Op {
		case "sel":
			b := x.Args[0]
			walk(b)
			if b.Op == "call" && b.Name == "all" {
				return
			}
			func() {
				defer func() { recover() }()
				v := env.eval(b)
				if v.GT != nil {
					if _, ok := v.GT.Underlying().(*types.Pointer); ok {
						conj = append(conj, not(eq(v.T, "0")))
					}
				}
			}()
		case "deref":
			walk(x.Args[0])
			func() {
				defer func() { recover() }()
				v := env.eval(x.Args[0])
				conj = append(conj, not(eq(v.T, "0")))
			}()
		case "idx", "slice":
			walk(x.Args[0])
		case "call":
			for _, a := range x.Args {
				walk(a)
			}
			if (x.Name == "bufv" || x.Name == "bsBits") && len(x.Args) == 1 {
				func() {
					defer func() { recover() }()
					v := env.eval(x.Args[0])
					if v.S == SInt {
						conj = append(conj, not(eq(v.T, "0")))
					}
				}()
			}
		}
	}
	walk(e)
	return and(conj...)
}

// locEntries interprets one location expression of a modifies clause.
func (env *Env) locEntries(e *Expr) []modEntry {
	g := env.defGuard(e)
	es := env.locEntries0(e)
	if g == "true" {
		return es
	}
	for i := range es {
		p := es[i].pred
		es[i].pred = func(o Term) Term { return and(g, p(o)) }
		es[i].guard = g
	}
	return es
}

func (env *Env) locEntries0(e *Expr) []modEntry {
	w := env.w
	mk := func(key string, rs refSet) modEntry { return modEntry{key: key, pred: rs.pred, single: rs.single} }
	var allFields func(rs refSet, st types.Type) []modEntry
	allFields = func(rs refSet, st types.Type) []modEntry {
		s, stt := structOf(st)
		if s == nil {
			efail("not a struct in modifies: %s", st)
		}
		var out []modEntry
		if isOpaqueLib(stt) {
			switch typeName(stt) {
			case "strings.Builder":
				return []modEntry{mk(keyBuilder, rs)}
			}
		}
		for i := 0; i < s.NumFields(); i++ {
			f := s.Field(i)
			if _, ok := f.Type().Underlying().(*types.Struct); ok {
				idx := strconv.Itoa(i)
				sub := refSet{typ: f.Type()}
				if rs.single != "" {
					sub = singleRef(app("emb", rs.single, idx), f.Type())
				} else {
					p := rs.pred
					sub.pred = func(o Term) Term { return and(app("<", o, "0"), p(app("embroot", o))) }
				}
				out = append(out, allFields(sub, f.Type())...)
				continue
			}
			key, _ := w.fieldKey(stt, f)
			out = append(out, mk(key, rs))
		}
		return out
	}
	baseSet := func(x *Expr) refSet {
		if x.Op == "call" && x.Name == "all" {
			// all(slice of pointers): any element
			sl := env.eval(x.Args[0])
			if sl.S != SSlice || sl.GT == nil {
				efail("all() expects a slice")
			}
			et := sl.GT.Underlying().(*types.Slice).Elem()
			key, _ := w.elemKey(et)
			content := sel(env.heap(key), sarrOf(sl.T))
			return refSet{typ: et, pred: func(o Term) Term {
				return "(exists ((k!m Int)) (and (<= 0 k!m) (< k!m " + slenOf(sl.T) + ") (= " + o + " " + sel(content, sidx(soffOf(sl.T), "k!m")) + ")))"
			}}
		}
		v := env.eval(x)
		if v.GT == nil {
			efail("untyped base in modifies")
		}
		return singleRef(v.T, v.GT)
	}
	switch e.Op {
	case "id":
		if _, bound := env.vars[e.Name]; !bound {
			if env.pkg != nil {
				if obj, ok := env.pkg.Scope().Lookup(e.Name).(*types.Var); ok {
					key, _ := w.globalKey(obj)
					return []modEntry{{key: key, pred: func(Term) Term { return "true" }, global: true}}
				}
			}
		}
	case "sel":
		switch e.Name {
		case "*":
			rs := baseSet(e.Args[0])
			return allFields(rs, rs.typ)
		case "[..]":
			v := env.eval(e.Args[0])
			if v.S == SSlice {
				et := v.GT.Underlying().(*types.Slice).Elem()
				key, _ := w.elemKey(et)
				return []modEntry{mk(key, singleRef(sarrOf(v.T), nil))}
			}
			if v.GT != nil {
				if p, ok := v.GT.Underlying().(*types.Pointer); ok {
					if a, ok := p.Elem().Underlying().(*types.Array); ok {
						key, _ := w.elemKey(a.Elem())
						return []modEntry{mk(key, singleRef(v.T, nil))}
					}
				}
			}
			efail("[..] on %s", v.S)
		default:
			rs := baseSet(e.Args[0])
			s, st := structOf(rs.typ)
			if s == nil {
				efail("field %s of non-struct in modifies", e.Name)
			}
			idx := fieldIndex(s, e.Name)
			if idx < 0 {
				efail("no field %s in %s", e.Name, st)
			}
			f := s.Field(idx)
			if _, ok := f.Type().Underlying().(*types.Struct); ok {
				if rs.single == "" {
					efail("embedded struct field of a region in modifies")
				}
				return allFields(singleRef(app("emb", rs.single, strconv.Itoa(idx)), f.Type()), f.Type())
			}
			key, _ := w.fieldKey(st, f)
			return []modEntry{mk(key, rs)}
		}
	case "deref":
		v := env.eval(e.Args[0])
		p, ok := v.GT.Underlying().(*types.Pointer)
		if !ok {
			efail("deref of non-pointer in modifies")
		}
		switch u := p.Elem().Underlying().(type) {
		case *types.Struct:
			return allFields(singleRef(v.T, p.Elem()), p.Elem())
		case *types.Array:
			key, _ := w.elemKey(u.Elem())
			return []modEntry{mk(key, singleRef(v.T, nil))}
		}
		key, _ := w.boxKey(p.Elem())
		return []modEntry{mk(key, singleRef(v.T, nil))}
	case "call":
		switch e.Name {
		case "bufv":
			v := env.eval(e.Args[0])
			return []modEntry{mk(keyBuilder, singleRef(v.T, nil))}
		case "bsBits":
			v := env.eval(e.Args[0])
			return []modEntry{mk(keyBitSet, singleRef(v.T, nil))}
		case "cost":
			return []modEntry{{key: "$cost", pred: func(Term) Term { return "true" }, global: true}}
		}
	}
	efail("unsupported location expression in modifies: %s", e.String())
	return nil
}

func (env *Env) modEntries(clauses []*Clause) (map[string][]modEntry, error) {
	out := map[string][]modEntry{}
	var err error
	func() {
		defer func() {
			if r := recover(); r != nil {
				if ee, ok := r.(evalErr); ok {
					err = fmt.Errorf("%s", string(ee))
					return
				}
				panic(r)
			}
		}()
		for _, c := range clauses {
			for _, e := range c.Exprs {
				for _, me := range env.locEntries(e) {
					out[me.key] = append(out[me.key], me)
				}
			}
		}
	}()
	return out, err
}

// ---------------------------------------------------------------------------------------------
// contract lookup

func sigParamNames(sig *types.Signature) []string {
	var names []string
	if r := sig.Recv(); r != nil {
		names = append(names, r.Name())
	}
	for i := 0; i < sig.Params().Len(); i++ {
		names = append(names, sig.Params().At(i).Name())
	}
	return names
}

func sigParamTypes(sig *types.Signature) []types.Type {
	var ts []types.Type
	if r := sig.Recv(); r != nil {
		ts = append(ts, r.Type())
	}
	for i := 0; i < sig.Params().Len(); i++ {
		ts = append(ts, sig.Params().At(i).Type())
	}
	return ts
}

type calleeInfo struct {
	key      string
	sig      *types.Signature
	names    []string // parameter names (receiver first)
	ptypes   []types.Type
	contract *FuncContract
	fn       *ssa.Function // nil for dynamic calls
	pkg      *types.Package
	dynamic  bool
	selfTerm Term // func value of a dynamic call ("" otherwise)
}

var defaultContract = &FuncContract{Loops: map[int]*LoopContract{}}

func (w *World) calleeOf(common *ssa.CallCommon) *calleeInfo {
	ci := &calleeInfo{}
	if common.IsInvoke() {
		it := common.Value.Type()
		ci.key = "iface:" + shortenPaths(types.TypeString(it, nil)) + "." + common.Method.Name()
		msig := common.Method.Type().(*types.Signature)
		ci.sig = msig
		ci.names = []string{"recv"}
		ci.ptypes = []types.Type{it}
		for i := 0; i < msig.Params().Len(); i++ {
			ci.names = append(ci.names, msig.Params().At(i).Name())
			ci.ptypes = append(ci.ptypes, msig.Params().At(i).Type())
		}
		ci.dynamic = true
		if n, ok := it.(*types.Named); ok && n.Obj().Pkg() != nil {
			ci.pkg = n.Obj().Pkg()
		}
	} else if f := common.StaticCallee(); f != nil {
		ci.key = shortFuncKey(f)
		ci.sig = f.Signature
		ci.fn = f
		ci.names = sigParamNames(f.Signature)
		ci.ptypes = sigParamTypes(f.Signature)
		// closures: free variables are not parameters at a direct call (none in this code base)
		if f.Pkg != nil {
			ci.pkg = f.Pkg.Pkg
		} else if f.Parent() != nil && f.Parent().Pkg != nil {
			ci.pkg = f.Parent().Pkg.Pkg
		} else if f.Object() != nil {
			ci.pkg = f.Object().Pkg()
		}
	} else {
		sig := common.Value.Type().Underlying().(*types.Signature)
		ci.key = "dyn:" + shortenPaths(types.TypeString(sig, nil))
		ci.sig = sig
		ci.names = sigParamNames(sig)
		ci.ptypes = sigParamTypes(sig)
		ci.dynamic = true
	}
	if c, ok := w.cs.Funcs[ci.key]; ok {
		ci.contract = c
		c.Used = true
	}
	return ci
}

// ---------------------------------------------------------------------------------------------
// static write sets (heap keys a function may write, transitively)

func (w *World) keysOfStoreAddr(addr ssa.Value, out map[string]bool) {
	pt, ok := addr.Type().Underlying().(*types.Pointer)
	if !ok {
		return
	}
	et := pt.Elem()
	switch a := addr.(type) {
	case *ssa.Alloc:
		if !a.Heap && !isOpaqueLib(et) {
			return
		}
	case *ssa.FieldAddr:
		// find root: if it is a non-heap local, no heap write
		root := ssa.Value(a)
		for {
			fa, ok := root.(*ssa.FieldAddr)
			if !ok {
				break
			}
			root = fa.X
		}
		if al, ok := root.(*ssa.Alloc); ok && !al.Heap && !isOpaqueLib(al.Type().(*types.Pointer).Elem()) {
			return
		}
		st := a.X.Type().Underlying().(*types.Pointer).Elem()
		s, _ := structOf(st)
		w.keysOfField(st, s, a.Field, out)
		return
	case *ssa.IndexAddr:
		switch u := a.X.Type().Underlying().(type) {
		case *types.Slice:
			k, _ := w.elemKeySafe(u.Elem())
			out[k] = true
		case *types.Pointer:
			if arr, ok := u.Elem().Underlying().(*types.Array); ok {
				k, _ := w.elemKeySafe(arr.Elem())
				out[k] = true
			}
		}
		return
	case *ssa.Global:
		if s, ok := sortOf(et); ok {
			key := "G_" + a.Pkg.Pkg.Name() + "." + strings.ReplaceAll(a.Name(), "$", "S")
			w.regHeap(key, s)
			out[key] = true
		}
		return
	}
	w.keysOfType(et, out)
}

func (w *World) elemKeySafe(t types.Type) (string, bool) {
	s, ok := sortOf(t)
	if !ok {
		return "E_unsupported", false
	}
	key := "E_" + typeName(t)
	w.regHeap(key, arrSort(arrSort(s)))
	return key, true
}

func (w *World) keysOfField(st types.Type, s *types.Struct, idx int, out map[string]bool) {
	f := s.Field(idx)
	if inner, ok := f.Type().Underlying().(*types.Struct); ok {
		if isOpaqueLib(f.Type()) {
			out[keyBuilder] = true
			return
		}
		for i := 0; i < inner.NumFields(); i++ {
			w.keysOfField(f.Type(), inner, i, out)
		}
		return
	}
	if sfs, ok := sortOf(f.Type()); ok {
		key := "H_" + typeName(st) + "_" + f.Name()
		w.regHeap(key, arrSort(sfs))
		out[key] = true
	}
}

// keysOfType: heap keys touched when an object of type t is written/initialised as a whole.
func (w *World) keysOfType(t types.Type, out map[string]bool) {
	switch u := t.Underlying().(type) {
	case *types.Struct:
		if isOpaqueLib(t) {
			out[keyBuilder] = true
			return
		}
		for i := 0; i < u.NumFields(); i++ {
			w.keysOfField(t, u, i, out)
		}
	case *types.Array:
		k, _ := w.elemKeySafe(u.Elem())
		out[k] = true
	default:
		if s, ok := sortOf(t); ok {
			key := "B_" + typeName(t)
			w.regHeap(key, arrSort(s))
			out[key] = true
		}
	}
}

func (w *World) contractWriteKeys(ci *calleeInfo) map[string]bool {
	out := map[string]bool{}
	ct := ci.contract
	if ct == nil || len(ct.Modifies) == 0 {
		return out
	}
	// evaluate the modifies clause with dummy arguments to learn the keys
	st := &State{heap: map[string]Term{}, alloc: "alloc!dummy", locals: map[*ssa.Alloc]Val{}, iters: map[string]Term{}}
	env := &Env{w: w, pkg: ci.pkg, vars: map[string]EV{}, st: st}
	for i, n := range ci.names {
		t := ci.ptypes[i]
		s, ok := sortOf(t)
		if !ok {
			if _, isStruct := t.Underlying().(*types.Struct); isStruct {
				s = SStruct
			} else {
				continue
			}
		}
		ev := EV{fmt.Sprintf("dummy%d", i), s, t}
		if n != "" && n != "_" {
			env.vars[n] = ev
		}
		env.vars[fmt.Sprintf("arg%d", i)] = ev
	}
	me, err := env.modEntries(ct.Modifies)
	if err != nil {
		w.warnings = append(w.warnings, fmt.Sprintf("modifies clause of %s: %v", ci.key, err))
		return out
	}
	for k := range me {
		out[k] = true
	}
	return out
}

func (w *World) writesOfCall(common *ssa.CallCommon) map[string]bool {
	ci := w.calleeOf(common)
	if ci.fn != nil && ci.fn.Blocks != nil && w.fnByKey[ci.key] == ci.fn {
		if ci.contract != nil && (ci.contract.Trusted || ci.contract.Opaque) {
			return w.contractWriteKeys(ci)
		}
		return w.writesOfFn(ci.fn)
	}
	return w.contractWriteKeys(ci)
}

func (w *World) writesOfFn(fn *ssa.Function) map[string]bool {
	key := shortFuncKey(fn)
	if m, ok := w.writesMemo[key]; ok {
		return m
	}
	if w.writesBusy[key] {
		return map[string]bool{}
	}
	w.writesBusy[key] = true
	out := map[string]bool{}
	for _, b := range fn.Blocks {
		for _, in := range b.Instrs {
			w.instrWrites(in, out)
		}
	}
	w.writesBusy[key] = false
	w.writesMemo[key] = out
	return out
}

func (w *World) instrWrites(in ssa.Instruction, out map[string]bool) {
	switch x := in.(type) {
	case *ssa.Store:
		w.keysOfStoreAddr(x.Addr, out)
	case *ssa.Alloc:
		et := x.Type().(*types.Pointer).Elem()
		if x.Heap || isOpaqueLib(et) {
			w.keysOfType(et, out)
		}
	case *ssa.MakeSlice:
		k, _ := w.elemKeySafe(x.Type().Underlying().(*types.Slice).Elem())
		out[k] = true
	case *ssa.Convert:
		if sl, ok := x.Type().Underlying().(*types.Slice); ok {
			k, _ := w.elemKeySafe(sl.Elem())
			out[k] = true
		}
	case *ssa.Call:
		if b, ok := x.Call.Value.(*ssa.Builtin); ok {
			switch b.Name() {
			case "append", "copy":
				if sl, ok := x.Call.Args[0].Type().Underlying().(*types.Slice); ok {
					k, _ := w.elemKeySafe(sl.Elem())
					out[k] = true
				}
			}
			return
		}
		for k := range w.writesOfCall(&x.Call) {
			out[k] = true
		}
	}
}

// ---------------------------------------------------------------------------------------------
// call instruction

func (fc *FnCtx) call(x *ssa.Call) Val {
	common := &x.Call
	if b, ok := common.Value.(*ssa.Builtin); ok {
		return fc.builtin(x, b)
	}
	if f := common.StaticCallee(); f != nil {
		if f.Name() == "init" && f.Pkg != nil && fc.w.typePkgs[f.Pkg.Pkg.Name()] != f.Pkg.Pkg {
			return nil // initialiser of an imported package
		}
	}
	ci := fc.w.calleeOf(common)
	if ci.fn != nil && fc.w.recursiveCall(fc.fn, ci.fn) {
		// no function of the verified packages is recursive on the pinned tree; a recursive call needs a measure, which the
		// contract language does not have for functions, so it is an undischargeable termination obligation
		fc.oblige("rec-term", "false", "recursive call to "+ci.key+" without a termination measure", []string{"C02"}, "")
	}
	var args []Val
	if common.IsInvoke() {
		args = append(args, fc.val(common.Value))
	}
	for _, a := range common.Args {
		args = append(args, fc.val(a))
	}
	if ci.dynamic && !common.IsInvoke() {
		fv := fc.term(common.Value)
		fc.nilCheck(fv, "call of nil func value")
		ci.selfTerm = fv // `self` in a dyn: contract names the func value that is called
	}
	if common.IsInvoke() {
		fc.nilCheck(fc.asTerm(args[0], common.Value.Type()), "method call on nil interface")
	}
	if os.Getenv("GOVC_DEBUG_INLINE") != "" && ci.contract == nil && ci.fn != nil {
		fmt.Fprintf(os.Stderr, "candidate %s: inmodule=%v can=%v\n", ci.key, fc.w.fnByKey[ci.key] == ci.fn, fc.canInline(ci.fn))
	}
	if ci.contract == nil && ci.fn != nil && !common.IsInvoke() && fc.w.fnByKey[ci.key] == ci.fn && fc.canInline(ci.fn) {
		return fc.inlineCall(ci.fn, args)
	}
	writes := fc.w.writesOfCall(common)
	return fc.applyContract(ci, args, writes, x.Type())
}

// canInline: in-module function without a contract that is straight-line code (no loop, defer, go, recover, closure capture),
// small, and not already being inlined.
func (fc *FnCtx) canInline(fn *ssa.Function) bool {
	if os.Getenv("GOVC_NOINLINE") != "" {
		return false
	}
	if fn.Blocks == nil || fn.Recover != nil || len(fn.FreeVars) > 0 || len(fc.inlineStack) >= 4 || fn == fc.fn {
		return false
	}
	for _, fr := range fc.inlineStack {
		if fr.fn == fn {
			return false
		}
	}
	n := 0
	for _, b := range fn.Blocks {
		for _, s := range b.Succs {
			if s.Dominates(b) {
				return false // loop
			}
		}
		for _, in := range b.Instrs {
			n++
			switch in.(type) {
			case *ssa.Defer, *ssa.Go, *ssa.MakeClosure, *ssa.Select:
				return false
			}
		}
	}
	return n <= 300
}

func (fc *FnCtx) inlineCall(fn *ssa.Function, args []Val) Val {
	if len(args) != len(fn.Params) {
		unsupported("inlining %s: %d arguments for %d parameters", shortFuncKey(fn), len(args), len(fn.Params))
	}
	if os.Getenv("GOVC_DEBUG_INLINE") != "" {
		fmt.Fprintf(os.Stderr, "inlining %s into %s\n", shortFuncKey(fn), fc.key)
	}
	fr := &inlineFrame{fn: fn}
	fc.inlineStack = append(fc.inlineStack, fr)
	saveInstr := fc.curInstr
	for i, p := range fn.Params {
		fc.vals[p] = args[i]
	}
	// reverse postorder of the callee
	seen := map[*ssa.BasicBlock]bool{}
	var post []*ssa.BasicBlock
	var dfs func(b *ssa.BasicBlock)
	dfs = func(b *ssa.BasicBlock) {
		seen[b] = true
		for _, s := range b.Succs {
			if !seen[s] {
				dfs(s)
			}
		}
		post = append(post, b)
	}
	dfs(fn.Blocks[0])
	for i := len(post) - 1; i >= 0; i-- {
		b := post[i]
		delete(fc.outs, b)
		if b == fn.Blocks[0] {
			fc.blockWith(b, []edgeOut{{to: b, cond: fc.reach, st: fc.st}}, false)
		} else {
			fc.blockWith(b, nil, false)
		}
	}
	fc.inlineStack = fc.inlineStack[:len(fc.inlineStack)-1]
	fc.curInstr = saveInstr
	if len(fr.rets) == 0 {
		// every path of the callee panics: nothing after the call is reachable
		fc.reach = "false"
		res := fn.Signature.Results()
		if res.Len() == 0 {
			return nil
		}
		if res.Len() == 1 {
			return fc.zeroVal(res.At(0).Type())
		}
		var tv TupleVal
		for i := 0; i < res.Len(); i++ {
			tv = append(tv, fc.zeroVal(res.At(i).Type()))
		}
		return tv
	}
	var ins []edgeOut
	var conds []Term
	for _, r := range fr.rets {
		ins = append(ins, edgeOut{to: fn.Blocks[0], cond: r.cond, st: r.st})
		conds = append(conds, r.cond)
	}
	st, r := fc.merge(fn.Blocks[0], ins)
	fc.st, fc.reach = st, r
	res := fn.Signature.Results()
	if res.Len() == 0 {
		return nil
	}
	var outs TupleVal
	for i := 0; i < res.Len(); i++ {
		var vs []Val
		for _, rt := range fr.rets {
			vs = append(vs, rt.vals[i])
		}
		outs = append(outs, fc.mergeVal("inl_"+sanitizeName(fn.Name()), res.At(i).Type(), vs, conds))
	}
	if res.Len() == 1 {
		return outs[0]
	}
	return outs
}

func (fc *FnCtx) applyContract(ci *calleeInfo, args []Val, writes map[string]bool, resType types.Type) Val {
	ct := ci.contract
	if ct == nil {
		ct = defaultContract
		if ci.fn == nil || fc.w.fnByKey[ci.key] != ci.fn {
			unsupported("call to %s which has no (trusted) contract", ci.key)
		}
	}
	pre := fc.st.clone()
	envPre := &Env{w: fc.w, pkg: ci.pkg, vars: map[string]EV{}, st: pre, alloc0: fc.alloc0, facts: &fc.facts}
	if envPre.pkg == nil {
		envPre.pkg = fc.pkg
	}
	for i, n := range ci.names {
		if i >= len(args) {
			break
		}
		t := ci.ptypes[i]
		var ev EV
		switch a := args[i].(type) {
		case StructVal:
			continue
		default:
			s, ok := sortOf(t)
			if !ok {
				if _, isStruct := t.Underlying().(*types.Struct); isStruct {
					continue
				}
				unsupported("argument of type %s", t)
			}
			ev = EV{fc.asTerm(a, t), s, t}
		}
		if n != "" && n != "_" {
			envPre.vars[n] = ev
		}
		envPre.vars[fmt.Sprintf("arg%d", i)] = ev
	}
	if ci.selfTerm != "" {
		envPre.vars["self"] = EV{ci.selfTerm, SInt, nil}
	}
	// variadic: last parameter is a slice already in SSA
	what := "call " + ci.key
	for _, r := range ct.Requires {
		t, err := envPre.EvalBool(r.Expr)
		if err != nil {
			unsupported("%s:%d: requires of %s: %v", r.File, r.Line, ci.key, err)
		}
		tags := append([]string{"C02"}, r.Tags...)
		fc.oblige("pre", t, what+": requires "+r.Text, tags, r.Label)
	}
	mods, err := envPre.modEntries(ct.Modifies)
	if err != nil {
		unsupported("modifies of %s: %v", ci.key, err)
	}
	// caller-side frame obligations
	var mkeys []string
	for k := range mods {
		mkeys = append(mkeys, k)
	}
	sort.Strings(mkeys)
	for _, k := range mkeys {
		for _, me := range mods[k] {
			if me.global {
				if !fc.isInit {
					var alts []Term
					for _, p := range fc.modPreds[k] {
						alts = append(alts, p(""))
					}
					fc.oblige("frame", or(alts...), what+" writes package variable "+k, []string{"C13", "C14"}, "")
				}
				continue
			}
			if me.single != "" {
				if me.guard != "" && me.guard != "true" {
					saveR := fc.reach
					fc.reach = and(fc.reach, me.guard)
					fc.frameCheck(k, me.single, what)
					fc.reach = saveR
				} else {
					fc.frameCheck(k, me.single, what)
				}
			} else if !fc.isInit {
				o := "o!f"
				var alts []Term
				alts = append(alts, app("isfresh", o, fc.alloc0), eq(o, "0"))
				for _, p := range fc.modPreds[k] {
					alts = append(alts, p(o))
				}
				goal := "(forall ((o!f Int)) " + implies(me.pred(o), or(alts...)) + ")"
				fc.oblige("frame", goal, what+" writes a region of "+k, []string{"C13", "C14"}, "")
			}
		}
	}
	// havoc
	pureCall := len(writes) == 0 && !contractAllocates(ct) && (ci.contract != nil && ci.contract.Trusted)
	allocPre := fc.st.alloc
	if !pureCall {
		na := fc.fresh("alloc", SInt)
		fc.assumeRaw(app("<=", allocPre, na))
		fc.st.alloc = na
	}
	for _, k := range sortedKeys(writes) {
		srt := fc.w.heapSorts[k]
		old := fc.st.Heap(k)
		if !strings.HasPrefix(srt, "(Array") {
			// scalar (package variable, $cost): unchanged unless listed
			if len(mods[k]) > 0 {
				fc.setHeap(k, fc.fresh(sanitize(k), srt))
			}
			continue
		}
		// Objects the callee allocates are handled by prophecy (the array is left as it is at fresh refs; the callee's
		// postcondition constrains those cells). Declared single-object entries become point updates; only region
		// entries need a quantified frame axiom.
		allSingle := true
		for _, me := range mods[k] {
			if me.single == "" {
				allSingle = false
			}
		}
		if allSingle {
			t := old
			inner := srt[len("(Array Int ") : len(srt)-1]
			seen := map[string]bool{}
			for _, me := range mods[k] {
				if seen[me.single] {
					continue
				}
				seen[me.single] = true
				v := fc.fresh(sanitize(k)+"_v", inner)
				if me.guard != "" && me.guard != "true" {
					v = ite(me.guard, v, sel(t, me.single))
				}
				t = store(t, me.single, v)
			}
			if t != old {
				fc.setHeap(k, t)
			}
			continue
		}
		nw := fc.fresh(sanitize(k), srt)
		var inMods []Term
		for _, me := range mods[k] {
			inMods = append(inMods, me.pred("o!h"))
		}
		cond := and(not(app("isfresh", "o!h", allocPre)), not(or(inMods...)))
		fc.assumeRaw("(forall ((o!h Int)) (! " + implies(cond, eq(sel(nw, "o!h"), sel(old, "o!h"))) + " :pattern (" + sel(nw, "o!h") + ")))")
		fc.setHeap(k, nw)
	}
	// results
	var res Val
	envPost := &Env{w: fc.w, pkg: envPre.pkg, vars: map[string]EV{}, st: fc.st, old: envPre, alloc0: allocPre, facts: &fc.facts}
	for k, v := range envPre.vars {
		envPost.vars[k] = v
	}
	results := ci.sig.Results()
	bindRes := func(i int, t types.Type, v Val) {
		if sv, isStruct := v.(StructVal); isStruct {
			r := fc.newRef()
			fc.structToHeap(r, t, sv)
			ev := EV{r, SStruct, t}
			if n := results.At(i).Name(); n != "" && n != "_" {
				envPost.vars[n] = ev
			}
			envPost.vars[fmt.Sprintf("result%d", i)] = ev
			if results.Len() == 1 {
				envPost.vars["result"] = ev
			}
			return
		}
		tv, ok := v.(string)
		if !ok {
			return
		}
		s, ok := sortOf(t)
		if !ok {
			return
		}
		ev := EV{tv, s, t}
		if n := results.At(i).Name(); n != "" && n != "_" {
			envPost.vars[n] = ev
		}
		envPost.vars[fmt.Sprintf("result%d", i)] = ev
		if results.Len() == 1 {
			envPost.vars["result"] = ev
		}
	}
	switch results.Len() {
	case 0:
		res = nil
	case 1:
		res = fc.havocVal("ret", results.At(0).Type())
		bindRes(0, results.At(0).Type(), res)
	default:
		var tv TupleVal
		for i := 0; i < results.Len(); i++ {
			v := fc.havocVal("ret", results.At(i).Type())
			tv = append(tv, v)
			bindRes(i, results.At(i).Type(), v)
		}
		res = tv
	}
	for _, e := range ct.Ensures {
		t, err := envPost.EvalBool(e.Expr)
		if err != nil {
			unsupported("%s:%d: ensures of %s: %v", e.File, e.Line, ci.key, err)
		}
		fc.assume(t)
	}
	// determinism of heap-pure functions (see readsOfFn)
	if ci.fn != nil && len(ct.Modifies) == 0 {
		var ats []Term
		okArgs := true
		for i, a := range args {
			if i >= len(ci.ptypes) {
				okArgs = false
				break
			}
			t, isT := a.(string)
			if !isT {
				okArgs = false
				break
			}
			ats = append(ats, t)
		}
		if okArgs {
			for i := 0; i < results.Len(); i++ {
				pt, _ := fc.w.pureResultTerm(ci.fn, pre, ats, i)
				if pt == "" {
					continue
				}
				var rv Val
				if results.Len() == 1 {
					rv = res
				} else if tv, ok := res.(TupleVal); ok {
					rv = tv[i]
				}
				if rt, ok := rv.(string); ok {
					if srt, _ := sortOf(results.At(i).Type()); srt == SStr {
						fc.assume(app("=", rt, pt))
					} else {
						fc.assume(eq(rt, pt))
					}
				}
			}
		}
	}
	return res
}

func contractAllocates(ct *FuncContract) bool {
	for _, e := range ct.Ensures {
		if strings.Contains(e.Text, "fresh(") {
			return true
		}
	}
	return false
}

func sanitize(k string) string {
	return strings.NewReplacer("$", "S", " ", "_").Replace(k)
}

// ---------------------------------------------------------------------------------------------
// builtins

func (fc *FnCtx) builtin(x *ssa.Call, b *ssa.Builtin) Val {
	args := x.Call.Args
	switch b.Name() {
	case "ssa:deferstack":
		return "0"
	case "len":
		t := args[0].Type()
		switch u := t.Underlying().(type) {
		case *types.Basic:
			return app("slen", fc.term(args[0]))
		case *types.Slice:
			return slenOf(fc.term(args[0]))
		case *types.Array:
			return strconv.FormatInt(u.Len(), 10)
		case *types.Pointer:
			if a, ok := u.Elem().Underlying().(*types.Array); ok {
				return strconv.FormatInt(a.Len(), 10)
			}
		}
		unsupported("len of %s", t)
	case "cap":
		if _, ok := args[0].Type().Underlying().(*types.Slice); ok {
			return scapOf(fc.term(args[0]))
		}
		unsupported("cap of %s", args[0].Type())
	case "append":
		return fc.doAppend(x)
	case "copy":
		return fc.doCopy(x)
	}
	unsupported("builtin %s", b.Name())
	return nil
}

func (fc *FnCtx) doAppend(x *ssa.Call) Val {
	args := x.Call.Args
	st := args[0].Type().Underlying().(*types.Slice)
	key, es := fc.w.elemKey(st.Elem())
	s := fc.term(args[0])
	if _, isStr := args[1].Type().Underlying().(*types.Basic); isStr {
		unsupported("append(bytes, string...)")
	}
	t := fc.term(args[1])
	E := fc.define("apE0", arrSort(arrSort(es)), fc.st.Heap(key))
	ln := fc.define("aplen", SInt, slenOf(s))
	n := slenOf(t)
	arr := fc.define("aparr", SInt, sarrOf(s))
	off := fc.define("apoff", SInt, soffOf(s))
	toff := soffOf(t)
	inplace := fc.define("inplace", SBool, and(app("<=", plus(ln, n), scapOf(s)), not(eq(arr, "0"))))
	// frame: in-place growth writes the existing backing array
	saveReach := fc.reach
	fc.reach = and(fc.reach, inplace)
	fc.frameCheck(key, arr, "append in place")
	fc.reach = saveReach
	r := fc.newRef()
	oldc := fc.define("apold", arrSort(es), sel(E, arr))
	tc := fc.define("aptc", arrSort(es), sel(E, sarrOf(t)))
	// copy case: a new array holding the old elements followed by the appended ones (absolute indices, offset 0)
	newc := fc.fresh("apc", arrSort(es))
	fc.assumeRaw("(forall ((j!a Int)) (! (and (=> (and (<= 0 j!a) (< j!a " + ln + ")) (= (select " + newc + " j!a) (select " + oldc + " " + sidx(off, "j!a") + ")))" +
		" (=> (and (<= " + ln + " j!a) (< j!a (+ " + ln + " " + n + "))) (= (select " + newc + " j!a) (select " + tc + " " + sidx(toff, "(- j!a "+ln+")") + ")))) :pattern ((select " + newc + " j!a))))")
	// in-place case: the old array with the cells [off+len, off+len+n) overwritten
	inc := fc.fresh("apc", arrSort(es))
	base := fc.define("apbase", SInt, app("+", off, ln))
	fc.assumeRaw("(forall ((j!a Int)) (! (= (select " + inc + " j!a) (ite (and (<= " + base + " j!a) (< j!a (+ " + base + " " + n + "))) (select " + tc + " " + sidx(toff, "(- j!a "+base+")") + ") (select " + oldc + " j!a))) :pattern ((select " + inc + " j!a))))")
	newcap := fc.fresh("apcap", SInt)
	fc.assumeRaw(and(app("<=", plus(ln, n), newcap), app("<=", newcap, "281474976710656")))
	fc.setHeap(key, fc.define("apE", arrSort(arrSort(es)), ite(inplace, store(E, arr, inc), store(E, r, newc))))
	res := fc.fresh("apres", SSlice)
	fc.assumeRaw(eq(res, app("mkslice", ite(inplace, arr, r), ite(inplace, off, "0"), plus(ln, n), ite(inplace, scapOf(s), newcap))))
	return res
}

func (fc *FnCtx) doCopy(x *ssa.Call) Val {
	args := x.Call.Args
	dt := args[0].Type().Underlying().(*types.Slice)
	key, es := fc.w.elemKey(dt.Elem())
	d := fc.term(args[0])
	E := fc.define("cpE0", arrSort(arrSort(es)), fc.st.Heap(key))
	var srcAt func(k Term) Term
	var sn Term
	if _, isStr := args[1].Type().Underlying().(*types.Basic); isStr {
		s := fc.term(args[1])
		sn = app("slen", s)
		srcAt = func(k Term) Term { return app("sat", s, k) }
	} else {
		s := fc.term(args[1])
		sn = slenOf(s)
		sc := sel(E, sarrOf(s))
		srcAt = func(k Term) Term { return sel(sc, sidx(soffOf(s), k)) }
	}
	n := fc.define("cpn", SInt, app("imin", slenOf(d), sn))
	saveReach := fc.reach
	fc.reach = and(fc.reach, app(">", n, "0"))
	fc.frameCheck(key, sarrOf(d), "copy")
	fc.reach = saveReach
	nc := fc.fresh("cpc", arrSort(es))
	doff := soffOf(d)
	oldc := sel(E, sarrOf(d))
	fc.assumeRaw("(forall ((k!c Int)) (! (= (select " + nc + " k!c) (ite (and (<= " + doff + " k!c) (< k!c (+ " + doff + " " + n + "))) " + srcAt(app("-", "k!c", doff)) + " (select " + oldc + " k!c))) :pattern ((select " + nc + " k!c))))")
	fc.setHeap(key, store(E, sarrOf(d), nc))
	return n
}

// ---------------------------------------------------------------------------------------------------------------
// Static read sets and determinism of heap-pure functions.
//
// A function of the verified packages that declares no modifies clause (it writes only objects it allocates) and returns
// scalars/strings is a deterministic function of its arguments and of the heap components it may read. Its result is
// therefore equal to an uninterpreted function applied to (current versions of the read components, arguments). Callers get
// that equation for free; contracts can name the value with resultOf("<key>", args...). The read set is computed from the
// SSA (loads, transitively through callees), so the equation is justified by the code, not assumed.
// ---------------------------------------------------------------------------------------------------------------

func (w *World) readsOfFn(fn *ssa.Function) map[string]bool {
	key := shortFuncKey(fn)
	if m, ok := w.readsMemo[key]; ok {
		return m
	}
	if w.readsBusy[key] {
		return map[string]bool{}
	}
	w.readsBusy[key] = true
	out := map[string]bool{}
	for _, b := range fn.Blocks {
		for _, in := range b.Instrs {
			switch x := in.(type) {
			case *ssa.UnOp:
				if x.Op == token.MUL {
					w.keysOfStoreAddr(x.X, out) // same key computation as for stores
				}
			case *ssa.Lookup:
			case *ssa.Convert:
				if sl, ok := x.X.Type().Underlying().(*types.Slice); ok {
					k, _ := w.elemKeySafe(sl.Elem())
					out[k] = true
				}
			case *ssa.Call:
				if b, ok := x.Call.Value.(*ssa.Builtin); ok {
					switch b.Name() {
					case "append", "copy":
						for _, a := range x.Call.Args {
							if sl, ok := a.Type().Underlying().(*types.Slice); ok {
								k, _ := w.elemKeySafe(sl.Elem())
								out[k] = true
							}
						}
					}
					continue
				}
				if x.Call.IsInvoke() || x.Call.StaticCallee() == nil {
					out["$dynamic"] = true
					continue
				}
				callee := x.Call.StaticCallee()
				ck := shortFuncKey(callee)
				if callee.Blocks != nil && w.fnByKey[ck] == callee {
					for k := range w.readsOfFn(callee) {
						out[k] = true
					}
					continue
				}
				// external: ghost-state readers
				if callee.Pkg != nil {
					switch callee.Pkg.Pkg.Path() {
					case "github.com/bits-and-blooms/bitset":
						out[keyBitSet] = true
					case "strings":
						if callee.Signature.Recv() != nil {
							out[keyBuilder] = true
						}
					case "golang.org/x/net/idna", "golang.org/x/text/encoding/charmap", "regexp", "unicode", "unicode/utf8", "strconv", "math", "net/url", "errors", "fmt", "sort":
					default:
						out["$dynamic"] = true
					}
				}
			}
		}
	}
	w.readsBusy[key] = false
	w.readsMemo[key] = out
	return out
}

// pureResultTerm returns the term naming the result(s) of a heap-pure deterministic function in state st, or "" if the
// function does not qualify.
func (w *World) pureResultTerm(fn *ssa.Function, st *State, args []Term, resIdx int) (Term, string) {
	key := shortFuncKey(fn)
	if fn.Blocks == nil || w.fnByKey[key] != fn {
		return "", ""
	}
	if c := w.cs.Funcs[key]; c != nil && (len(c.Modifies) > 0 || c.Trusted || c.Opaque) {
		return "", ""
	}
	if len(w.writesOfFnPreexisting(fn)) > 0 {
		return "", ""
	}
	res := fn.Signature.Results()
	if resIdx >= res.Len() {
		return "", ""
	}
	rs, ok := sortOf(res.At(resIdx).Type())
	if !ok || !(rs == SInt || rs == SBool || rs == SStr) {
		return "", ""
	}
	switch res.At(resIdx).Type().Underlying().(type) {
	case *types.Pointer, *types.Interface, *types.Map, *types.Signature, *types.Slice:
		return "", ""
	}
	reads := w.readsOfFn(fn)
	if reads["$dynamic"] {
		return "", ""
	}
	var ts []Term
	var sorts []string
	for _, k := range sortedKeys(reads) {
		ts = append(ts, st.Heap(k))
		sorts = append(sorts, w.heapSorts[k])
	}
	ptypes := sigParamTypes(fn.Signature)
	if len(args) != len(ptypes) {
		return "", ""
	}
	for i, a := range args {
		s, ok := sortOf(ptypes[i])
		if !ok {
			return "", ""
		}
		ts = append(ts, a)
		sorts = append(sorts, s)
	}
	name := fmt.Sprintf("pure_%s_%d", sanitizeSym(key), resIdx)
	w.declarePure(name, sorts, rs)
	return app(name, ts...), rs
}

func sanitizeSym(s string) string {
	return strings.NewReplacer("(", "", ")", "", "*", "p", "$", "S", "#", "H", " ", "_", "/", "_").Replace(s)
}

func (w *World) declarePure(name string, sorts []string, rs string) {
	if w.pureDecls == nil {
		w.pureDecls = map[string]string{}
	}
	if _, ok := w.pureDecls[name]; !ok {
		w.pureDecls[name] = fmt.Sprintf("(declare-fun %s (%s) %s)", name, strings.Join(sorts, " "), rs)
		w.pureOrder = append(w.pureOrder, name)
	}
}

// writesOfFnPreexisting: does the function (per its contract) write anything that exists before the call? A function
// without a modifies clause is checked by its own frame obligations to write fresh objects only.
func (w *World) writesOfFnPreexisting(fn *ssa.Function) map[string]bool {
	out := map[string]bool{}
	key := shortFuncKey(fn)
	if c := w.cs.Funcs[key]; c != nil && len(c.Modifies) > 0 {
		out["declared"] = true
	}
	// transitively: callees with modifies clauses applied to pre-existing objects would have to appear in this function's
	// own modifies clause (frame obligations), so the declaration above is enough.
	return out
}

// recursiveCall: can callee reach caller again through static calls inside the verified packages?
func (w *World) recursiveCall(caller, callee *ssa.Function) bool {
	if callee.Blocks == nil || w.fnByKey[shortFuncKey(callee)] != callee {
		return false
	}
	seen := map[*ssa.Function]bool{}
	var visit func(f *ssa.Function) bool
	visit = func(f *ssa.Function) bool {
		if f == caller {
			return true
		}
		if seen[f] {
			return false
		}
		seen[f] = true
		for _, b := range f.Blocks {
			for _, in := range b.Instrs {
				ci, ok := in.(ssa.CallInstruction)
				if !ok {
					continue
				}
				g := ci.Common().StaticCallee()
				if g == nil || g.Blocks == nil || w.fnByKey[shortFuncKey(g)] != g {
					continue
				}
				if visit(g) {
					return true
				}
			}
		}
		return false
	}
	return visit(callee)
}

// inlinedOnly: an unexported function without a contract that the generator inlines at its call sites is not verified on its
// own (it has no precondition to be verified against); its obligations are generated at every call site instead.
func (w *World) inlinedOnly(key string) bool {
	if os.Getenv("GOVC_NOINLINE") != "" {
		return false
	}
	if _, ok := w.cs.Funcs[key]; ok {
		return false
	}
	fn := w.fnByKey[key]
	if fn == nil || fn.Object() == nil || fn.Object().Exported() || fn.Name() == "init" || strings.HasPrefix(fn.Name(), "init#") {
		return false
	}
	tmp := &FnCtx{w: w}
	return tmp.canInline(fn)
}
