package main

// Typing and translation of contract expressions to SMT terms.

import (
	"fmt"
	"go/constant"
	"go/types"
	"strconv"
	"strings"
)

const SStruct = "Struct" // pseudo sort: the term is the address (ref) of a struct value

type EV struct {
	T  Term
	S  string
	GT types.Type // Go type when known (nil for ghost / untyped ints)
}

type evalErr string

func efail(f string, a ...interface{}) { panic(evalErr(fmt.Sprintf(f, a...))) }

type Env struct {
	w       *World
	pkg     *types.Package
	vars    map[string]EV
	st      *State // current state (heap); nil in pure context
	old     *Env   // environment for old(...)
	alloc0  Term   // allocation counter at the reference point for fresh()
	allocL  Term   // allocation counter at loop entry, for freshL() in loop invariants
	preEnv  *Env   // loop-entry environment, for pre() in loop invariants
	prevEnv *Env   // environment at the head of the current iteration, for prev() in loop step clauses
	lookup  func(name string) (EV, bool)
	inOld   bool
	fuel    int
	facts   *[]Term // heap well-formedness facts about refs read while evaluating (assumed by the caller)
}

// noteRef records that a reference-typed value read from state env.st is allocated in that state.
func (env *Env) noteRef(t Term, gt types.Type) { env.noteRefOwned(t, gt, "") }

// noteRefOwned: the fact is guarded by "owner is allocated in this state" (objects a callee will allocate are
// modelled by prophecy and may hold refs beyond the current allocation counter).
func (env *Env) noteRefOwned(t Term, gt types.Type, owner Term) {
	if env.facts == nil || env.st == nil || gt == nil {
		return
	}
	var f Term
	switch gt.Underlying().(type) {
	case *types.Pointer:
		f = and(app("<", t, env.st.alloc), implies(app("<", t, "0"), app("<", app("embroot", t), env.st.alloc)))
	case *types.Signature:
		f = app("<", t, env.st.alloc)
	case *types.Map, *types.Interface:
		f = and(app("<=", "0", t), app("<", t, env.st.alloc))
	case *types.Slice:
		f = and(app("<=", "0", sarrOf(t)), app("<", sarrOf(t), env.st.alloc), app("<=", "0", soffOf(t)),
			app("<=", "0", slenOf(t)), app("<=", slenOf(t), scapOf(t)), app("<=", scapOf(t), "281474976710656"),
			implies(eq(sarrOf(t), "0"), eq(scapOf(t), "0")))
	default:
		if lo, hi, ok := intRange(gt); ok {
			f = and(app("<=", lo, t), app("<=", t, hi))
		} else if b, ok := gt.Underlying().(*types.Basic); ok && b.Info()&types.IsString != 0 {
			f = app("<=", app("slen", t), "1099511627776")
		} else {
			return
		}
	}
	if owner != "" {
		f = implies(app("isalloc", owner, env.st.alloc), f)
	}
	*env.facts = append(*env.facts, f)
}

func (env *Env) child() *Env {
	n := *env
	n.vars = map[string]EV{}
	for k, v := range env.vars {
		n.vars[k] = v
	}
	return &n
}

func (env *Env) heap(key string) Term {
	if env.st == nil {
		efail("heap access (%s) in a pure context", key)
	}
	return env.st.Heap(key)
}

// resolveType parses a (restricted) Go type text in the scope of pkg.
func (w *World) resolveType(text string, pkg *types.Package) (string, types.Type) {
	switch text {
	case "int", "rune", "byte", "uint", "int64", "uint16", "uint32", "int32", "uint8", "uint64":
		return SInt, types.Universe.Lookup(text).Type()
	case "bool":
		return SBool, types.Typ[types.Bool]
	case "string":
		return SStr, types.Typ[types.String]
	case "real":
		return SReal, types.Typ[types.Float64]
	case "set":
		return arrSort(SBool), nil
	case "intarr":
		return arrSort(SInt), nil
	case "strarr":
		return arrSort(SStr), nil
	case "ref":
		return SInt, nil
	case "error":
		return SInt, types.Universe.Lookup("error").Type()
	}
	if strings.HasPrefix(text, "*") {
		_, et := w.resolveType(text[1:], pkg)
		if et == nil {
			efail("cannot resolve type %q", text)
		}
		return SInt, types.NewPointer(et)
	}
	if strings.HasPrefix(text, "[]") {
		_, et := w.resolveType(text[2:], pkg)
		if et == nil {
			efail("cannot resolve type %q", text)
		}
		return SSlice, types.NewSlice(et)
	}
	if strings.HasPrefix(text, "[") {
		i := strings.Index(text, "]")
		n, _ := strconv.Atoi(text[1:i])
		es, et := w.resolveType(text[i+1:], pkg)
		if et == nil {
			efail("cannot resolve type %q", text)
		}
		return arrSort(es), types.NewArray(et, int64(n))
	}
	var obj types.Object
	if i := strings.Index(text, "."); i >= 0 {
		p := w.findPkg(text[:i], pkg)
		if p == nil {
			efail("unknown package in type %q", text)
		}
		obj = p.Scope().Lookup(text[i+1:])
	} else if pkg != nil {
		obj = pkg.Scope().Lookup(text)
	}
	if obj == nil {
		// try all verified packages
		for _, p := range w.typePkgs {
			if o := p.Scope().Lookup(text); o != nil {
				if _, ok := o.(*types.TypeName); ok {
					obj = o
					break
				}
			}
		}
	}
	tn, ok := obj.(*types.TypeName)
	if !ok {
		efail("cannot resolve type %q", text)
	}
	t := tn.Type()
	if _, isStruct := t.Underlying().(*types.Struct); isStruct {
		return SStruct, t
	}
	s, ok := sortOf(t)
	if !ok {
		efail("type %q has no SMT sort", text)
	}
	return s, t
}

func (w *World) findPkg(name string, from *types.Package) *types.Package {
	if from != nil {
		if from.Name() == name {
			return from
		}
		for _, imp := range from.Imports() {
			if imp.Name() == name {
				return imp
			}
		}
	}
	if p, ok := w.typePkgs[name]; ok {
		return p
	}
	// search transitive imports of verified packages
	for _, p := range w.typePkgs {
		for _, imp := range p.Imports() {
			if imp.Name() == name {
				return imp
			}
		}
	}
	// aliased imports (goerrors, u2)
	switch name {
	case "goerrors":
		return w.findPkgPath("errors")
	case "u2":
		return w.findPkgPath("net/url")
	}
	return nil
}

func (w *World) findPkgPath(path string) *types.Package {
	for _, p := range w.allPkgs {
		if p.Path() == path {
			return p
		}
	}
	return nil
}

// ---------------------------------------------------------------------------------------------
// heap keys

func (w *World) regHeap(key, elemSort string) string {
	if old, ok := w.heapSorts[key]; ok {
		if old != elemSort {
			panic(fmt.Sprintf("heap key %s registered with sorts %s and %s", key, old, elemSort))
		}
		return key
	}
	w.heapSorts[key] = elemSort
	w.heapOrder = append(w.heapOrder, key)
	return key
}

// fieldKey returns the heap array for field f of struct type st (named).
func (w *World) fieldKey(st types.Type, f *types.Var) (string, string) {
	s, ok := sortOf(f.Type())
	if !ok {
		if _, isStruct := f.Type().Underlying().(*types.Struct); isStruct {
			return "", SStruct
		}
		efail("field %s.%s has unsupported type %s", typeName(st), f.Name(), f.Type())
	}
	key := "H_" + typeName(st) + "_" + f.Name()
	w.regHeap(key, arrSort(s))
	return key, s
}

func (w *World) boxKey(t types.Type) (string, string) {
	s, ok := sortOf(t)
	if !ok {
		efail("no box for type %s", t)
	}
	key := "B_" + typeName(t)
	w.regHeap(key, arrSort(s))
	return key, s
}

func (w *World) elemKey(t types.Type) (string, string) {
	s, ok := sortOf(t)
	if !ok {
		efail("no element array for type %s", t)
	}
	key := "E_" + typeName(t)
	w.regHeap(key, arrSort(arrSort(s)))
	return key, s
}

func (w *World) globalKey(v *types.Var) (string, string) {
	s, ok := sortOf(v.Type())
	if !ok {
		efail("global %s has unsupported type %s", v.Name(), v.Type())
	}
	key := "G_" + v.Pkg().Name() + "." + v.Name()
	w.regHeap(key, s)
	return key, s
}

const (
	keyBuilder = "V_Builder"
	keyBitSet  = "V_BitSet"
)

func structOf(t types.Type) (*types.Struct, types.Type) {
	if p, ok := t.Underlying().(*types.Pointer); ok {
		t = p.Elem()
	}
	s, ok := t.Underlying().(*types.Struct)
	if !ok {
		return nil, nil
	}
	return s, t
}

func fieldIndex(s *types.Struct, name string) int {
	for i := 0; i < s.NumFields(); i++ {
		if s.Field(i).Name() == name {
			return i
		}
	}
	return -1
}

// selectField: value of field idx of the struct at address ref.
func (env *Env) selectField(ref Term, st types.Type, s *types.Struct, idx int) EV {
	f := s.Field(idx)
	key, fs := env.w.fieldKey(st, f)
	if fs == SStruct {
		return EV{app("emb", ref, strconv.Itoa(idx)), SStruct, f.Type()}
	}
	r := EV{sel(env.heap(key), ref), fs, f.Type()}
	env.noteRefOwned(r.T, r.GT, ref)
	return r
}

// ---------------------------------------------------------------------------------------------

func (env *Env) Eval(e *Expr) (ev EV, err error) {
	defer func() {
		if r := recover(); r != nil {
			if ee, ok := r.(evalErr); ok {
				err = fmt.Errorf("%s (in %s)", string(ee), e.String())
				return
			}
			panic(r)
		}
	}()
	ev = env.eval(e)
	return
}

func (env *Env) EvalBool(e *Expr) (Term, error) {
	ev, err := env.Eval(e)
	if err != nil {
		return "", err
	}
	if ev.S != SBool {
		return "", fmt.Errorf("expected a boolean expression, got %s: %s", ev.S, e.String())
	}
	return ev.T, nil
}

func (env *Env) eval(e *Expr) EV {
	switch e.Op {
	case "int":
		return EV{intLitStr(e.Int), SInt, nil}
	case "real":
		return EV{e.Int, SReal, types.Typ[types.Float64]}
	case "str":
		return EV{env.w.lits.Get(e.Str), SStr, types.Typ[types.String]}
	case "bool":
		return EV{e.Name, SBool, types.Typ[types.Bool]}
	case "nil":
		return EV{"0", SInt, types.Typ[types.UntypedNil]}
	case "id":
		return env.evalIdent(e.Name)
	case "old":
		if env.old == nil {
			efail("old() not available here")
		}
		return env.old.eval(e.Args[0])
	case "call":
		if e.Name == "prev" {
			if env.prevEnv == nil {
				efail("prev() is only available in loop step clauses")
			}
			if len(e.Args) != 1 {
				efail("prev takes one argument")
			}
			pe := *env.prevEnv
			pe.vars = env.vars
			pe.facts = env.facts
			pe.prevEnv = env.prevEnv // prev inside prev: still the head of the same iteration
			return pe.eval(e.Args[0])
		}
		if e.Name == "pre" {
			if env.preEnv == nil {
				efail("pre() is only available in loop invariants")
			}
			if len(e.Args) != 1 {
				efail("pre takes one argument")
			}
			pe := *env.preEnv
			pe.vars = env.vars
			pe.facts = env.facts
			return pe.eval(e.Args[0])
		}
		return env.evalCall(e)
	case "un":
		x := env.eval(e.Args[0])
		switch e.Name {
		case "!":
			if x.S != SBool {
				efail("! applied to %s", x.S)
			}
			return EV{not(x.T), SBool, x.GT}
		case "-":
			if x.S == SReal {
				return EV{app("-", x.T), SReal, x.GT}
			}
			if x.S != SInt {
				efail("- applied to %s", x.S)
			}
			return EV{app("-", x.T), SInt, x.GT}
		}
	case "deref":
		x := env.eval(e.Args[0])
		return env.deref(x)
	case "bin":
		return env.evalBin(e)
	case "cond":
		c := env.eval(e.Args[0])
		a := env.eval(e.Args[1])
		b := env.eval(e.Args[2])
		if c.S != SBool || a.S != b.S {
			efail("ill-typed conditional (%s ? %s : %s)", c.S, a.S, b.S)
		}
		gt := a.GT
		if gt == nil {
			gt = b.GT
		}
		return EV{ite(c.T, a.T, b.T), a.S, gt}
	case "sel":
		return env.evalSel(e)
	case "idx":
		x := env.eval(e.Args[0])
		i := env.eval(e.Args[1])
		if i.S != SInt {
			efail("index is not an integer")
		}
		return env.index(x, i.T)
	case "slice":
		x := env.eval(e.Args[0])
		var lo, hi Term
		if e.Args[1] != nil {
			lo = env.eval(e.Args[1]).T
		} else {
			lo = "0"
		}
		switch x.S {
		case SStr:
			if e.Args[2] != nil {
				hi = env.eval(e.Args[2]).T
			} else {
				hi = app("slen", x.T)
			}
			return EV{app("ssub", x.T, lo, hi), SStr, x.GT}
		case SSlice:
			if e.Args[2] != nil {
				hi = env.eval(e.Args[2]).T
			} else {
				hi = slenOf(x.T)
			}
			return EV{app("mkslice", sarrOf(x.T), plus(soffOf(x.T), lo), minus(hi, lo), minus(scapOf(x.T), lo)), SSlice, x.GT}
		}
		efail("cannot slice %s", x.S)
	case "forall", "exists":
		ne := env.child()
		var binders []string
		var guards []Term
		for _, v := range e.Vars {
			s, gt := env.w.resolveType(v.Type, env.pkg)
			if s == SStruct {
				efail("cannot quantify over struct values")
			}
			name := "q_" + v.Name
			ne.vars[v.Name] = EV{name, s, gt}
			if ne.old != nil {
				o := *ne.old
				o.vars = map[string]EV{}
				for k, vv := range ne.old.vars {
					o.vars[k] = vv
				}
				o.vars[v.Name] = EV{name, s, gt}
				ne.old = &o
			}
			binders = append(binders, "("+name+" "+s+")")
			if gt != nil {
				if lo, hi, ok := intRange(gt); ok && v.Type != "int" {
					guards = append(guards, app("<=", lo, name), app("<=", name, hi))
				}
			}
		}
		var qfacts []Term
		if env.facts != nil {
			ne.facts = &qfacts
			if ne.old != nil {
				ne.old.facts = &qfacts
			}
		}
		body := ne.eval(e.Args[0])
		if body.S != SBool {
			efail("quantifier body is not boolean")
		}
		if env.facts != nil {
			for _, f := range qfacts {
				mentions := false
				for _, v := range e.Vars {
					if strings.Contains(f, "q_"+v.Name) {
						mentions = true
					}
				}
				if mentions {
					f = "(forall (" + strings.Join(binders, " ") + ") " + f + ")"
				}
				*env.facts = append(*env.facts, f)
			}
		}
		bt := body.T
		if len(guards) > 0 {
			if e.Op == "forall" {
				bt = implies(and(guards...), bt)
			} else {
				bt = and(append(guards, bt)...)
			}
		}
		if len(e.Trig) > 0 {
			var pats []string
			for _, tr := range e.Trig {
				var ts []string
				for _, t := range tr {
					ts = append(ts, ne.eval(t).T)
				}
				pats = append(pats, ":pattern ("+strings.Join(ts, " ")+")")
			}
			bt = "(! " + bt + " " + strings.Join(pats, " ") + ")"
		}
		return EV{"(" + e.Op + " (" + strings.Join(binders, " ") + ") " + bt + ")", SBool, types.Typ[types.Bool]}
	}
	efail("cannot evaluate %s", e.String())
	return EV{}
}

func (env *Env) evalIdent(name string) EV {
	if v, ok := env.vars[name]; ok {
		return v
	}
	if env.lookup != nil {
		if v, ok := env.lookup(name); ok {
			return v
		}
	}
	if env.pkg != nil {
		if obj := env.pkg.Scope().Lookup(name); obj != nil {
			return env.evalObject(obj)
		}
	}
	if obj := types.Universe.Lookup(name); obj != nil {
		if c, ok := obj.(*types.Const); ok {
			return env.constVal(c.Val(), c.Type())
		}
	}
	efail("unknown identifier %q", name)
	return EV{}
}

func (env *Env) constVal(v constant.Value, t types.Type) EV {
	switch v.Kind() {
	case constant.Bool:
		if constant.BoolVal(v) {
			return EV{"true", SBool, t}
		}
		return EV{"false", SBool, t}
	case constant.String:
		return EV{env.w.lits.Get(constant.StringVal(v)), SStr, t}
	case constant.Int:
		return EV{intLitStr(v.ExactString()), SInt, t}
	case constant.Float:
		f, _ := constant.Float64Val(v)
		return EV{realLit(f), SReal, t}
	}
	efail("unsupported constant kind")
	return EV{}
}

func realLit(f float64) Term {
	s := strconv.FormatFloat(f, 'f', -1, 64)
	if !strings.Contains(s, ".") {
		s += ".0"
	}
	if strings.HasPrefix(s, "-") {
		return "(- " + s[1:] + ")"
	}
	return s
}

func (env *Env) evalObject(obj types.Object) EV {
	switch o := obj.(type) {
	case *types.Const:
		return env.constVal(o.Val(), o.Type())
	case *types.Var:
		key, s := env.w.globalKey(o)
		r := EV{env.heap(key), s, o.Type()}
		env.noteRef(r.T, r.GT)
		return r
	}
	efail("identifier %q is not a value", obj.Name())
	return EV{}
}

func (env *Env) deref(x EV) EV {
	if x.GT == nil {
		efail("dereference of untyped value")
	}
	p, ok := x.GT.Underlying().(*types.Pointer)
	if !ok {
		efail("dereference of non-pointer %s", x.GT)
	}
	et := p.Elem()
	switch u := et.Underlying().(type) {
	case *types.Struct:
		return EV{x.T, SStruct, et}
	case *types.Array:
		key, es := env.w.elemKey(u.Elem())
		return EV{sel(env.heap(key), x.T), arrSort(es), et}
	}
	key, s := env.w.boxKey(et)
	r := EV{sel(env.heap(key), x.T), s, et}
	env.noteRefOwned(r.T, r.GT, x.T)
	return r
}

func (env *Env) index(x EV, i Term) EV {
	switch x.S {
	case SStr:
		return EV{app("sat", x.T, i), SInt, types.Typ[types.Uint8]}
	case SSlice:
		var et types.Type
		if x.GT != nil {
			if sl, ok := x.GT.Underlying().(*types.Slice); ok {
				et = sl.Elem()
			}
		}
		if et == nil {
			efail("indexing a slice of unknown element type")
		}
		key, es := env.w.elemKey(et)
		r := EV{sel(sel(env.heap(key), sarrOf(x.T)), sidx(soffOf(x.T), i)), es, et}
		env.noteRefOwned(r.T, r.GT, sarrOf(x.T))
		return r
	case SInt:
		if x.GT != nil {
			if p, ok := x.GT.Underlying().(*types.Pointer); ok {
				if a, ok := p.Elem().Underlying().(*types.Array); ok {
					key, es := env.w.elemKey(a.Elem())
					return EV{sel(sel(env.heap(key), x.T), i), es, a.Elem()}
				}
			}
		}
	}
	if strings.HasPrefix(x.S, "(Array Int ") {
		inner := x.S[len("(Array Int ") : len(x.S)-1]
		var et types.Type
		if x.GT != nil {
			if a, ok := x.GT.Underlying().(*types.Array); ok {
				et = a.Elem()
			}
		}
		return EV{sel(x.T, i), inner, et}
	}
	efail("cannot index a value of sort %s", x.S)
	return EV{}
}

func (env *Env) evalSel(e *Expr) EV {
	// package-qualified identifier?
	if x := e.Args[0]; x.Op == "id" {
		if _, bound := env.vars[x.Name]; !bound {
			isLocal := false
			if env.lookup != nil {
				_, isLocal = env.lookup(x.Name)
			}
			if !isLocal && (env.pkg == nil || env.pkg.Scope().Lookup(x.Name) == nil) {
				if p := env.w.findPkg(x.Name, env.pkg); p != nil {
					obj := p.Scope().Lookup(e.Name)
					if obj == nil {
						efail("%s.%s not found", x.Name, e.Name)
					}
					return env.evalObject(obj)
				}
			}
		}
	}
	x := env.eval(e.Args[0])
	if x.GT == nil {
		efail("selector .%s on untyped value", e.Name)
	}
	s, st := structOf(x.GT)
	if s == nil {
		efail("selector .%s on non-struct type %s", e.Name, x.GT)
	}
	idx := fieldIndex(s, e.Name)
	if idx < 0 {
		efail("type %s has no field %s", st, e.Name)
	}
	return env.selectField(x.T, st, s, idx)
}

func isUnsigned(t types.Type) bool {
	if t == nil {
		return false
	}
	b, ok := t.Underlying().(*types.Basic)
	return ok && b.Info()&types.IsUnsigned != 0
}

func (env *Env) evalBin(e *Expr) EV {
	op := e.Name
	boolT := types.Typ[types.Bool]
	switch op {
	case "&&", "||", "==>", "<==>":
		a := env.eval(e.Args[0])
		b := env.eval(e.Args[1])
		if a.S != SBool || b.S != SBool {
			efail("operator %s applied to %s, %s", op, a.S, b.S)
		}
		switch op {
		case "&&":
			return EV{and(a.T, b.T), SBool, boolT}
		case "||":
			return EV{or(a.T, b.T), SBool, boolT}
		case "==>":
			return EV{implies(a.T, b.T), SBool, boolT}
		default:
			return EV{app("=", a.T, b.T), SBool, boolT}
		}
	}
	a := env.eval(e.Args[0])
	b := env.eval(e.Args[1])
	gt := a.GT
	if gt == nil || isUntyped(gt) {
		gt = b.GT
	}
	switch op {
	case "==", "!=":
		if a.S == SSlice && e.Args[1].Op == "nil" {
			a = EV{sarrOf(a.T), SInt, nil}
		}
		if b.S == SSlice && e.Args[0].Op == "nil" {
			b = EV{sarrOf(b.T), SInt, nil}
		}
		if a.S != b.S {
			efail("comparison of %s with %s", a.S, b.S)
		}
		var t Term
		switch a.S {
		case SStr:
			t = strEq(a.T, b.T)
		default:
			t = eq(a.T, b.T)
		}
		if op == "!=" {
			t = not(t)
		}
		return EV{t, SBool, boolT}
	case "<", "<=", ">", ">=":
		if a.S == SStr && b.S == SStr {
			t := app("strlt", a.T, b.T)
			switch op {
			case "<=":
				t = or(t, strEq(a.T, b.T))
			case ">":
				t = app("strlt", b.T, a.T)
			case ">=":
				t = or(app("strlt", b.T, a.T), strEq(a.T, b.T))
			}
			return EV{t, SBool, boolT}
		}
		if !(a.S == b.S && (a.S == SInt || a.S == SReal)) {
			efail("comparison %s of %s with %s", op, a.S, b.S)
		}
		return EV{app(op, a.T, b.T), SBool, boolT}
	case "+":
		if a.S == SStr && b.S == SStr {
			return EV{app("scat", a.T, b.T), SStr, a.GT}
		}
		fallthrough
	case "-", "*":
		if a.S == SReal && b.S == SReal {
			return EV{app(op, a.T, b.T), SReal, gt}
		}
		if a.S != SInt || b.S != SInt {
			efail("operator %s applied to %s, %s", op, a.S, b.S)
		}
		return EV{app(op, a.T, b.T), SInt, gt}
	case "/":
		if a.S == SReal {
			return EV{app("/", a.T, b.T), SReal, gt}
		}
		return EV{app("div", a.T, b.T), SInt, gt}
	case "%":
		return EV{app("mod", a.T, b.T), SInt, gt}
	case "&", "|", "<<", ">>":
		if a.S != SInt || b.S != SInt {
			efail("operator %s applied to %s, %s", op, a.S, b.S)
		}
		return EV{bitop(op, a.T, b.T), SInt, gt}
	}
	efail("unknown operator %s", op)
	return EV{}
}

func isUntyped(t types.Type) bool {
	b, ok := t.(*types.Basic)
	return ok && b.Info()&types.IsUntyped != 0
}

func strEq(a, b Term) Term {
	if a == b {
		return "true"
	}
	if a == "lit_empty" {
		return app("=", app("slen", b), "0")
	}
	if b == "lit_empty" {
		return app("=", app("slen", a), "0")
	}
	return app("seq", a, b)
}

func isIntLit(t Term) (int64, bool) {
	v, err := strconv.ParseInt(t, 10, 64)
	if err != nil {
		return 0, false
	}
	return v, true
}

// bitop models &, |, <<, >> on mathematical integers for the shapes used in the verified code:
// masks of the form 2^k-1, constant shifts. Anything else goes to an uninterpreted function.
func bitop(op string, a, b Term) Term {
	switch op {
	case "&":
		if v, ok := isIntLit(b); ok && v >= 0 && (v+1)&v == 0 {
			return app("mod", a, strconv.FormatInt(v+1, 10))
		}
		if v, ok := isIntLit(a); ok && v >= 0 && (v+1)&v == 0 {
			return app("mod", b, strconv.FormatInt(v+1, 10))
		}
		return app("bit_and", a, b)
	case ">>":
		if v, ok := isIntLit(b); ok && v >= 0 && v < 63 {
			return app("div", a, strconv.FormatInt(int64(1)<<uint(v), 10))
		}
		return app("bit_shr", a, b)
	case "<<":
		if v, ok := isIntLit(b); ok && v >= 0 && v < 62 {
			return app("*", a, strconv.FormatInt(int64(1)<<uint(v), 10))
		}
		return app("bit_shl", a, b)
	case "|":
		return app("bit_or", a, b)
	}
	panic("bitop")
}

func (env *Env) evalCall(e *Expr) EV {
	name := e.Name
	argn := func(n int) {
		if len(e.Args) != n {
			efail("%s expects %d arguments", name, n)
		}
	}
	boolT := types.Typ[types.Bool]
	intT := types.Typ[types.Int]
	strT := types.Typ[types.String]
	switch name {
	case "len":
		argn(1)
		x := env.eval(e.Args[0])
		switch x.S {
		case SStr:
			return EV{app("slen", x.T), SInt, intT}
		case SSlice:
			return EV{slenOf(x.T), SInt, intT}
		}
		if x.GT != nil {
			if a, ok := x.GT.Underlying().(*types.Array); ok {
				return EV{strconv.FormatInt(a.Len(), 10), SInt, intT}
			}
		}
		efail("len of %s", x.S)
	case "cap":
		argn(1)
		x := env.eval(e.Args[0])
		if x.S != SSlice {
			efail("cap of %s", x.S)
		}
		return EV{scapOf(x.T), SInt, intT}
	case "arr":
		argn(1)
		x := env.eval(e.Args[0])
		if x.S != SSlice {
			efail("arr of %s", x.S)
		}
		return EV{sarrOf(x.T), SInt, nil}
	case "off":
		argn(1)
		x := env.eval(e.Args[0])
		return EV{soffOf(x.T), SInt, intT}
	case "bsTest":
		argn(2)
		b := env.eval(e.Args[0])
		i := env.eval(e.Args[1])
		return EV{sel(sel(env.heap(keyBitSet), b.T), i.T), SBool, boolT}
	case "bsBits":
		argn(1)
		b := env.eval(e.Args[0])
		return EV{sel(env.heap(keyBitSet), b.T), arrSort(SBool), nil}
	case "bufv":
		argn(1)
		b := env.eval(e.Args[0])
		return EV{sel(env.heap(keyBuilder), b.T), SStr, strT}
	case "fresh":
		argn(1)
		x := env.eval(e.Args[0])
		if env.alloc0 == "" {
			efail("fresh() not available here")
		}
		if x.S == SSlice {
			return EV{app("isfresh", sarrOf(x.T), env.alloc0), SBool, boolT}
		}
		return EV{app("isfresh", x.T, env.alloc0), SBool, boolT}
	case "freshL":
		argn(1)
		x := env.eval(e.Args[0])
		if env.allocL == "" {
			efail("freshL() is only available in loop invariants")
		}
		if x.S == SSlice {
			return EV{app("isfresh", sarrOf(x.T), env.allocL), SBool, boolT}
		}
		return EV{app("isfresh", x.T, env.allocL), SBool, boolT}
	case "allocated":
		argn(1)
		x := env.eval(e.Args[0])
		if env.st == nil {
			efail("allocated() in pure context")
		}
		t := x.T
		if x.S == SSlice {
			t = sarrOf(x.T)
		}
		return EV{app("<", t, env.st.alloc), SBool, boolT}
	case "mapHas":
		argn(2)
		m := env.eval(e.Args[0])
		k := env.eval(e.Args[1])
		return EV{app("maphas_Str", m.T, k.T), SBool, boolT}
	case "mapVal":
		argn(2)
		m := env.eval(e.Args[0])
		k := env.eval(e.Args[1])
		return EV{app("mapval_Str_Str", m.T, k.T), SStr, strT}
	case "int", "int64", "int32", "rune", "uint", "byte", "uint8", "uint16", "uint32", "uint64":
		argn(1)
		x := env.eval(e.Args[0])
		t := types.Universe.Lookup(name).Type()
		if x.S == SReal {
			return EV{app("to_int", x.T), SInt, t}
		}
		if x.S != SInt {
			efail("conversion %s of %s", name, x.S)
		}
		return EV{x.T, SInt, t}
	case "string":
		argn(1)
		x := env.eval(e.Args[0])
		if x.S == SStr {
			return EV{x.T, SStr, strT}
		}
		if x.S == SInt {
			return EV{app("utf8", x.T), SStr, strT}
		}
		efail("conversion string of %s", x.S)
	case "real":
		argn(1)
		x := env.eval(e.Args[0])
		return EV{app("to_real", x.T), SReal, types.Typ[types.Float64]}
	case "utf8":
		argn(1)
		x := env.eval(e.Args[0])
		return EV{app("utf8", x.T), SStr, strT}
	case "unit":
		argn(1)
		x := env.eval(e.Args[0])
		return EV{app("sunit", x.T), SStr, strT}
	case "runeAt":
		argn(2)
		s := env.eval(e.Args[0])
		p := env.eval(e.Args[1])
		return EV{app("rat", s.T, p.T), SInt, types.Typ[types.Int32]}
	case "runeWidth":
		argn(2)
		s := env.eval(e.Args[0])
		p := env.eval(e.Args[1])
		return EV{app("rwidth", s.T, p.T), SInt, intT}
	case "runeCount":
		argn(1)
		s := env.eval(e.Args[0])
		return EV{app("rcount", s.T), SInt, intT}
	case "runesOf":
		argn(1)
		s := env.eval(e.Args[0])
		return EV{app("srunes", s.T), arrSort(SInt), nil}
	case "bytesOf":
		argn(1)
		s := env.eval(e.Args[0])
		return EV{app("sbytes", s.T), arrSort(SInt), nil}
	case "content":
		// content(slice): the backing array content (Array Int T) of a slice
		argn(1)
		x := env.eval(e.Args[0])
		if x.S != SSlice || x.GT == nil {
			efail("content of non-slice")
		}
		et := x.GT.Underlying().(*types.Slice).Elem()
		key, es := env.w.elemKey(et)
		return EV{sel(env.heap(key), sarrOf(x.T)), arrSort(es), nil}
	case "fieldMap":
		// fieldMap(x.f): the whole heap component of field f (an array from object references to field values) in the current
		// state; lets a recursive spec function range over a list of pointers (rec f(c intarr, o int, names strarr, ...)).
		argn(1)
		se := e.Args[0]
		if se.Op != "sel" {
			efail("fieldMap expects a field selector")
		}
		x := env.eval(se.Args[0])
		if x.GT == nil {
			efail("fieldMap on untyped value")
		}
		fs, fst := structOf(x.GT)
		if fs == nil {
			efail("fieldMap on non-struct type %s", x.GT)
		}
		fi := fieldIndex(fs, se.Name)
		if fi < 0 {
			efail("type %s has no field %s", fst, se.Name)
		}
		fkey, fsort := env.w.fieldKey(fst, fs.Field(fi))
		if fsort == SStruct {
			efail("fieldMap of an embedded struct")
		}
		return EV{env.heap(fkey), arrSort(fsort), nil}
	case "strOfBytes":
		argn(3)
		a := env.eval(e.Args[0])
		o := env.eval(e.Args[1])
		n := env.eval(e.Args[2])
		return EV{app("str_of_bytes", a.T, o.T, n.T), SStr, strT}
	case "strOfRunes":
		argn(3)
		a := env.eval(e.Args[0])
		o := env.eval(e.Args[1])
		n := env.eval(e.Args[2])
		return EV{app("str_of_runes", a.T, o.T, n.T), SStr, strT}
	case "min":
		argn(2)
		return EV{app("imin", env.eval(e.Args[0]).T, env.eval(e.Args[1]).T), SInt, intT}
	case "max":
		argn(2)
		return EV{app("imax", env.eval(e.Args[0]).T, env.eval(e.Args[1]).T), SInt, intT}
	case "alloc":
		argn(0)
		if env.st == nil {
			efail("alloc() in pure context")
		}
		return EV{env.st.alloc, SInt, nil}
	case "cost":
		argn(0)
		if env.st == nil {
			efail("cost() in pure context")
		}
		return EV{env.st.Heap("$cost"), SInt, intT}
	case "errIsRange":
		// errors.Is(e, strconv.ErrRange): a *ValidationError unwraps to its cause (one level is all the code builds)
		argn(1)
		x := env.eval(e.Args[0])
		vt := env.w.typePkgs["errors"].Scope().Lookup("ValidationError").Type()
		isVE := and(not(eq(x.T, "0")), eq(app("dyntype", x.T), strconv.Itoa(env.w.typeID(typeName(types.NewPointer(vt))))))
		st, _ := structOf(vt)
		cause := env.selectField(x.T, vt, st, fieldIndex(st, "cause"))
		return EV{ite(isVE, app("err_is_range", cause.T), app("err_is_range", x.T)), SBool, boolT}
	case "isVE", "errType", "errFailure", "errUrl", "errDescr", "errCause":
		argn(1)
		x := env.eval(e.Args[0])
		vt := env.w.typePkgs["errors"].Scope().Lookup("ValidationError").Type()
		if name == "isVE" {
			return EV{and(not(eq(x.T, "0")), eq(app("dyntype", x.T), strconv.Itoa(env.w.typeID(typeName(types.NewPointer(vt)))))), SBool, boolT}
		}
		fname := map[string]string{"errType": "errorType", "errFailure": "failure", "errUrl": "url", "errDescr": "descr", "errCause": "cause"}[name]
		s, _ := structOf(vt)
		return env.selectField(x.T, vt, s, fieldIndex(s, fname))
	case "resultOf":
		// resultOf("<function key>", args...): the value the heap-pure function returns in the current state
		if len(e.Args) < 1 || e.Args[0].Op != "str" {
			efail("resultOf expects a function key string")
		}
		fn := env.w.fnByKey[e.Args[0].Str]
		if fn == nil {
			efail("resultOf: unknown function %s", e.Args[0].Str)
		}
		if env.st == nil {
			efail("resultOf in pure context")
		}
		var ats []Term
		for _, a := range e.Args[1:] {
			ats = append(ats, env.eval(a).T)
		}
		pt, rs := env.w.pureResultTerm(fn, env.st, ats, 0)
		if pt == "" {
			efail("resultOf: %s is not a heap-pure deterministic function", e.Args[0].Str)
		}
		// the function's proved postconditions hold of this value (under its preconditions)
		if ct := env.w.cs.Funcs[e.Args[0].Str]; ct != nil && env.facts != nil && env.fuel < 3 && fn.Signature.Results().Len() == 1 {
			ce := &Env{w: env.w, pkg: env.pkg, vars: map[string]EV{}, st: env.st, alloc0: env.st.alloc, fuel: env.fuel + 3}
			if fn.Pkg != nil {
				ce.pkg = fn.Pkg.Pkg
			}
			oe := *ce
			ce.old = &oe
			names := sigParamNames(fn.Signature)
			ptypes := sigParamTypes(fn.Signature)
			okBind := len(names) == len(ats)
			for i := range names {
				if !okBind {
					break
				}
				srt, ok := sortOf(ptypes[i])
				if !ok {
					okBind = false
					break
				}
				ev := EV{ats[i], srt, ptypes[i]}
				if names[i] != "" && names[i] != "_" {
					ce.vars[names[i]] = ev
				}
			}
			if okBind {
				rt := fn.Signature.Results().At(0).Type()
				rev := EV{pt, rs, rt}
				ce.vars["result"] = rev
				ce.vars["result0"] = rev
				if n := fn.Signature.Results().At(0).Name(); n != "" && n != "_" {
					ce.vars[n] = rev
				}
				oe.vars = ce.vars
				func() {
					defer func() { recover() }()
					var pre []Term
					for _, r := range ct.Requires {
						pre = append(pre, ce.eval(r.Expr).T)
					}
					for _, en := range ct.Ensures {
						t := ce.eval(en.Expr)
						if t.S == SBool && !strings.Contains(t.T, "q_") || true {
							*env.facts = append(*env.facts, implies(and(pre...), t.T))
						}
					}
				}()
			}
		}
		return EV{pt, rs, fn.Signature.Results().At(0).Type()}
	case "asParams":
		// the []*NameValuePair boxed in an interface value (argument of sort.SliceStable)
		argn(1)
		x := env.eval(e.Args[0])
		nvp := env.w.typePkgs["url"].Scope().Lookup("NameValuePair").Type()
		return EV{app("iface_slice", x.T), SSlice, types.NewSlice(types.NewPointer(nvp))}
	case "dyntype":
		argn(1)
		x := env.eval(e.Args[0])
		return EV{app("dyntype", x.T), SInt, nil}
	case "typeid":
		argn(1)
		// typeid("url.parser") style
		if e.Args[0].Op != "str" {
			efail("typeid expects a string literal")
		}
		return EV{strconv.Itoa(env.w.typeID(e.Args[0].Str)), SInt, nil}
	case "fnid":
		argn(1)
		if e.Args[0].Op != "str" {
			efail("fnid expects a function key string")
		}
		return EV{strconv.Itoa(env.w.funcID(e.Args[0].Str)), SInt, nil}
	case "closureFn":
		argn(1)
		x := env.eval(e.Args[0])
		return EV{app("closure_fn", x.T), SInt, nil}
	}
	// user-defined spec function / predicate
	sf, ok := env.w.cs.Specs[name]
	if !ok {
		efail("unknown function %s in contract expression", name)
	}
	if len(sf.Params) != len(e.Args) {
		efail("%s expects %d arguments, got %d", name, len(sf.Params), len(e.Args))
	}
	var args []EV
	for i, a := range e.Args {
		v := env.eval(a)
		ps, pt := env.w.resolveType(sf.Params[i].Type, env.w.specPkg(sf))
		if v.S != ps {
			efail("argument %d of %s has sort %s, expected %s", i+1, name, v.S, ps)
		}
		if v.GT == nil || isUntyped(v.GT) || (sf.Pred && pt != nil) {
			v.GT = pt
		}
		args = append(args, v)
	}
	rs, rt := env.w.resolveType(sf.Ret, env.w.specPkg(sf))
	if sf.Pred {
		// macro expansion with the caller's heap
		if env.fuel > 40 {
			efail("predicate expansion too deep at %s", name)
		}
		ne := &Env{w: env.w, pkg: env.w.specPkg(sf), vars: map[string]EV{}, st: env.st, alloc0: env.alloc0, fuel: env.fuel + 1, facts: env.facts}
		if env.old != nil {
			oe := &Env{w: env.w, pkg: ne.pkg, vars: map[string]EV{}, st: env.old.st, alloc0: env.old.alloc0, fuel: env.fuel + 1, facts: env.facts}
			ne.old = oe
		}
		for i, p := range sf.Params {
			ne.vars[p.Name] = args[i]
			if ne.old != nil {
				ne.old.vars[p.Name] = args[i]
			}
		}
		r := ne.eval(sf.Body)
		if r.S != rs {
			efail("predicate %s body has sort %s, declared %s", name, r.S, rs)
		}
		return r
	}
	env.w.useSpec(sf)
	var ts []Term
	for _, a := range args {
		ts = append(ts, a.T)
	}
	return EV{app("sp_"+name, ts...), rs, rt}
}
