package main

import (
	"context"
	"encoding/json"
	"flag"
	"fmt"
	"os"
	"sort"
	"strings"
	"sync"
)

func main() {
	if len(os.Args) < 2 {
		fmt.Fprintln(os.Stderr, "usage: govc <verify|check|list|replay> ...")
		os.Exit(2)
	}
	switch os.Args[1] {
	case "verify":
		cmdVerify(os.Args[2:])
	case "list":
		cmdList(os.Args[2:])
	case "check":
		cmdCheck(os.Args[2:])
	case "baseline":
		cmdBaseline(os.Args[2:])
	case "replay":
		cmdReplay(os.Args[2:])
	case "selftest":
		cmdSelftest(os.Args[2:])
	case "probe":
		cmdProbe(os.Args[2:])
	default:
		fmt.Fprintln(os.Stderr, "unknown command", os.Args[1])
		os.Exit(2)
	}
}

func cmdList(args []string) {
	fs := flag.NewFlagSet("list", flag.ExitOnError)
	repo := fs.String("repo", "/repo", "repository")
	verif := fs.String("verif", "/verif", "verif dir")
	fs.Parse(args)
	w, err := LoadWorld(*repo, *verif)
	if err != nil {
		fmt.Fprintln(os.Stderr, "ERROR", err)
		os.Exit(2)
	}
	var keys []string
	for k := range w.fnByKey {
		keys = append(keys, k)
	}
	sort.Strings(keys)
	for _, k := range keys {
		c := ""
		if _, ok := w.cs.Funcs[k]; ok {
			c = " [contract]"
		}
		fmt.Printf("%s%s\n", k, c)
	}
}

func cmdVerify(args []string) {
	fs := flag.NewFlagSet("verify", flag.ExitOnError)
	repo := fs.String("repo", "/repo", "repository")
	verif := fs.String("verif", "/verif", "verif dir")
	scratch := fs.String("scratch", "", "scratch dir (kept if given)")
	timeout := fs.Int("timeout", 10, "per-obligation timeout (s)")
	verbose := fs.Bool("v", false, "print every obligation")
	all := fs.Bool("all", false, "verify every function")
	kinds := fs.String("kinds", "", "only these obligation kinds (comma separated)")
	match := fs.String("match", "", "only obligations whose name or text contains this substring")
	fs.Parse(args)
	w, err := LoadWorld(*repo, *verif)
	if err != nil {
		fmt.Fprintln(os.Stderr, "ERROR", err)
		os.Exit(2)
	}
	dir := *scratch
	if dir == "" {
		dir, _ = os.MkdirTemp("", "govc")
		defer os.RemoveAll(dir)
	} else {
		os.MkdirAll(dir, 0o755)
	}
	keys := fs.Args()
	if *all {
		keys = nil
		for k := range w.fnByKey {
			keys = append(keys, k)
		}
		sort.Strings(keys)
	}
	kindSet := map[string]bool{}
	for _, k := range strings.Split(*kinds, ",") {
		if k != "" {
			kindSet[k] = true
		}
	}
	jobs := make(chan struct{}, 16)
	total, ok := 0, 0
	only := func(o *Obligation) bool {
		if *match != "" && !strings.Contains(o.Name, *match) && !strings.Contains(o.Text, *match) {
			return false
		}
		return len(kindSet) == 0 || kindSet[o.Kind]
	}
	type item struct {
		fc     *FnCtx
		header string
		err    error
	}
	var items []*item
	if *all {
		keys = append(keys, "lemmas")
	}
	for _, key := range keys {
		if key == "lemmas" {
			continue
		}
		if *all && w.inlinedOnly(key) {
			continue
		}
		fc, err := w.NewFnCtx(key)
		if err != nil {
			fmt.Println("ERROR", err)
			continue
		}
		if err := fc.Generate(); err != nil {
			fmt.Printf("%-50s GEN-ERROR %v\n", key, err)
			continue
		}
		items = append(items, &item{fc: fc})
	}
	// headers are rendered after all generation so that every literal / heap key is declared
	for _, it := range items {
		it.header, it.err = w.scriptHeader(it.fc)
	}
	for _, k := range keys {
		if k == "lemmas" {
			lfc, lh, err := w.LemmaObligations()
			items = append(items, &item{fc: lfc, header: lh, err: err})
		}
	}
	var wg sync.WaitGroup
	for _, it := range items {
		if it.err != nil {
			continue
		}
		it := it
		wg.Add(1)
		go func() {
			defer wg.Done()
			it.err = w.Discharge(it.fc, it.header, dir, *timeout, only, jobs)
		}()
	}
	wg.Wait()
	for _, it := range items {
		fc := it.fc
		if it.err != nil {
			fmt.Printf("%-50s SOLVER-ERROR %v\n", fc.key, it.err)
			continue
		}
		n, d := 0, 0
		for _, o := range fc.obls {
			if !only(o) || o.Kind == "canary" {
				continue
			}
			n++
			if o.Status == "unsat" {
				d++
			}
		}
		total += n
		ok += d
		fmt.Printf("%-50s %d/%d\n", fc.key, d, n)
		for _, o := range fc.obls {
			if !only(o) {
				continue
			}
			if o.Kind == "canary" {
				if o.Status == "unsat" {
					fmt.Printf("    VACUOUS  %-45s %s\n", o.Name, o.Text)
				}
				continue
			}
			if o.Status != "unsat" || *verbose {
				fmt.Printf("    %-8s %-45s %s:%d %s %s [%s %.2fs]\n", o.Status, o.Name, shortFile(o.Pos.Filename), o.Pos.Line, o.Via, truncate(o.Text, 100), o.Solver, o.TimeS)
			}
		}
	}
	fmt.Printf("TOTAL %d/%d discharged\n", ok, total)
	for _, wn := range w.warnings {
		fmt.Println("warning:", wn)
	}
}

func shortFile(f string) string {
	if i := strings.LastIndex(f, "/"); i >= 0 {
		return f[i+1:]
	}
	return f
}

// cmdReplay re-runs the obligation(s) of the clause named in a replay file against /repo's current tree with a long budget:
// exit 1 (and the solver's answer) if the clause still has an undischarged obligation, exit 0 if every obligation of it
// discharges now. The replay is of the failed proof obligation; no failing input is available (see DESIGN A.1).
func cmdReplay(args []string) {
	fs := flag.NewFlagSet("replay", flag.ExitOnError)
	repo := fs.String("repo", "/repo", "repository")
	verif := fs.String("verif", "/verif", "verif dir")
	fs.Parse(args)
	if fs.NArg() < 1 {
		fmt.Println("usage: govc replay <replay.json>")
		os.Exit(2)
	}
	data, err := os.ReadFile(fs.Arg(0))
	if err != nil {
		fmt.Println("ERROR", err)
		os.Exit(2)
	}
	var rec struct {
		Clause     string `json:"clause"`
		Obligation string `json:"obligation"`
		Property   string `json:"property"`
		Kind       string `json:"kind"`
		Text       string `json:"text"`
	}
	if err := json.Unmarshal(data, &rec); err != nil {
		fmt.Println("ERROR", err)
		os.Exit(2)
	}
	fn := rec.Obligation
	if i := strings.Index(fn, "/"); i >= 0 {
		fn = fn[:i]
	}
	fmt.Printf("replaying clause %s (property %s)\n  %s\n", rec.Clause, rec.Property, rec.Text)
	w, err := LoadWorld(*repo, *verif)
	if err != nil {
		fmt.Println("ERROR", err)
		os.Exit(2)
	}
	fc, err := w.NewFnCtx(fn)
	if err == nil {
		err = fc.Generate()
	}
	if err != nil {
		fmt.Printf("STILL FAILING: %s cannot be brought under its contract: %v\n", fn, err)
		os.Exit(1)
	}
	hdr, err := w.scriptHeader(fc)
	if err != nil {
		fmt.Println("ERROR", err)
		os.Exit(2)
	}
	dir, _ := os.MkdirTemp("", "govc-replay")
	defer os.RemoveAll(dir)
	n := 0
	only := func(o *Obligation) bool {
		if o.Kind == "canary" || clauseKey(o) != rec.Clause {
			return false
		}
		n++
		return true
	}
	graceS = 60
	if err := w.Discharge(fc, hdr, dir, 60, only, make(chan struct{}, 16)); err != nil {
		fmt.Println("ERROR", err)
		os.Exit(2)
	}
	bad := 0
	for _, o := range fc.obls {
		if o.Kind != "canary" && clauseKey(o) == rec.Clause && o.Status != "unsat" {
			bad++
			fmt.Printf("  %s: %s (%s) at %s:%d %s\n", o.Name, o.Status, o.Solver, shortFile(o.Pos.Filename), o.Pos.Line, o.Via)
		}
	}
	if n == 0 {
		fmt.Println("STILL FAILING: the clause generates no obligation any more (the code it was attached to is gone)")
		os.Exit(1)
	}
	if bad > 0 {
		fmt.Printf("STILL FAILING: %d of %d obligations of the clause are not discharged (no failing input is derived)\n", bad, n)
		os.Exit(1)
	}
	fmt.Printf("discharged now: all %d obligations of the clause\n", n)
}
func cmdSelftest(args []string) { fmt.Println("not implemented"); os.Exit(2) }

// cmdProbe: consistency probe. The prelude, the spec definitions, the uninterpreted functions' axioms and the lemmas are given
// to the MBQI-enabled solvers without any goal; "unsat" means the axioms contradict each other (every proof would be vacuous).
// "unknown"/"timeout" is the expected answer (no contradiction found within the budget).
// probeWorld runs the consistency probe and returns one line per solver and whether a contradiction was found.
func probeWorld(w *World, timeout int) ([]string, bool) {
	fc, header, err := w.LemmaObligations()
	if err != nil {
		return []string{"error: " + err.Error()}, false
	}
	dir, _ := os.MkdirTemp("", "govc-probe")
	defer os.RemoveAll(dir)
	body := header + strings.Join(fc.log, "\n") + "\n(check-sat)\n"
	bad := false
	var out []string
	var wg sync.WaitGroup
	var mu sync.Mutex
	for _, sp := range solvers {
		sp := sp
		wg.Add(1)
		go func() {
			defer wg.Done()
			f := dir + "/probe." + sp.name + ".smt2"
			os.WriteFile(f, []byte(sp.opts+body), 0o644)
			st, _, dt := runSolver(context.Background(), sp, f, timeout)
			mu.Lock()
			out = append(out, fmt.Sprintf("%s: %s (%.1fs)", sp.name, st, dt))
			if st == "unsat" {
				bad = true
			}
			mu.Unlock()
		}()
	}
	wg.Wait()
	sort.Strings(out)
	return out, bad
}

func cmdProbe(args []string) {
	fs := flag.NewFlagSet("probe", flag.ExitOnError)
	repo := fs.String("repo", "/repo", "repository")
	verif := fs.String("verif", "/verif", "verif dir")
	timeout := fs.Int("timeout", 120, "seconds per solver")
	fs.Parse(args)
	w, err := LoadWorld(*repo, *verif)
	if err != nil {
		fmt.Fprintln(os.Stderr, "ERROR", err)
		os.Exit(2)
	}
	fc, header, err := w.LemmaObligations()
	if err != nil {
		fmt.Fprintln(os.Stderr, "ERROR", err)
		os.Exit(2)
	}
	dir, _ := os.MkdirTemp("", "govc-probe")
	defer os.RemoveAll(dir)
	body := header + strings.Join(fc.log, "\n") + "\n(check-sat)\n"
	bad := false
	var wg sync.WaitGroup
	var mu sync.Mutex
	for _, sp := range solvers {
		sp := sp
		wg.Add(1)
		go func() {
			defer wg.Done()
			f := dir + "/probe." + sp.name + ".smt2"
			os.WriteFile(f, []byte(sp.opts+body), 0o644)
			st, _, dt := runSolver(context.Background(), sp, f, *timeout)
			mu.Lock()
			fmt.Printf("probe %-12s %-8s %.1fs\n", sp.name, st, dt)
			if st == "unsat" {
				bad = true
			}
			mu.Unlock()
		}()
	}
	wg.Wait()
	if bad {
		fmt.Println("INCONSISTENT: prelude + specs + lemmas are unsatisfiable")
		os.Exit(2)
	}
	fmt.Println("probe: no contradiction found")
}
