package main

// Contract files: parsing of //@ comment lines (in /repo, behind the verif build tag) and of
// /verif/trusted/*.contracts and /verif/spec/*.spec (same syntax without the //@ prefix).

import (
	"fmt"
	"os"
	"regexp"
	"sort"
	"strconv"
	"strings"
)

type Clause struct {
	Kind  string // requires, ensures, invariant, decreases, modifies, assert
	Expr  *Expr
	Exprs []*Expr // decreases (lexicographic), modifies (locations)
	Text  string
	Tags  []string // property ids
	Label string
	File  string
	Line  int
}

type LoopContract struct {
	ExitAsserts []*Clause
	Steps       []*Clause // `loop k step e`: holds at every back edge; prev(x) is x at the head of the iteration that ends there
	Invariants  []*Clause
	Decreases   *Clause
	Modifies    *Clause
	Unroll      int
}

type FuncContract struct {
	Key      string
	Pkg      string // package the contract file belongs to ("" for trusted/external keyed by full name)
	Requires []*Clause
	Ensures  []*Clause
	Modifies []*Clause
	HasMod   bool
	Loops    map[int]*LoopContract
	Trusted  bool      // external/assumed: body not verified
	Params   []VarDecl // for trusted declarations that name their parameters
	Results  []VarDecl
	Opaque   bool // body not verified although in module (recorded as assumption)
	Note     string
	Cost     *Clause
	File     string
	Line     int
	Used     bool
	Reads    []string
	NoReads  []*NoReadsClause
}

// NoReadsClause: `noreads pkg.Type.field, ... [except funcKey, ...]` — neither the function nor anything it calls (except the
// listed functions) loads the listed fields. Decided by the generator's static read-set walk over the SSA, not by the solver.
type NoReadsClause struct {
	Keys   []string // heap keys H_pkg.Type_field
	Fields []string
	Except map[string]bool
	Text   string
	Tags   []string
	Label  string
	File   string
	Line   int
}

type SpecFunc struct {
	Name      string
	Params    []VarDecl
	Ret       string
	Body      *Expr
	Rec       bool
	Pred      bool // macro-expanded, may read the heap
	Decreases *Expr
	Uninterp  bool
	Axioms    []*Clause
	File      string
	Line      int
}

type Axiom struct {
	Name  string
	Expr  *Expr
	Text  string
	File  string
	Line  int
	Lemma bool // proved in isolation (obligation kind "lemma") before being used as an axiom
	Tags  []string
}

type GlobalInv struct {
	Name string
	Expr *Expr
	Text string
	Tags []string
}

type ContractSet struct {
	Funcs   map[string]*FuncContract // key: pkgpath-qualified, e.g. "url.(*parser).parseHost", "strings.HasPrefix"
	Specs   map[string]*SpecFunc
	Axioms  []*Axiom
	Globals []*GlobalInv
	Order   []string
}

func NewContractSet() *ContractSet {
	return &ContractSet{Funcs: map[string]*FuncContract{}, Specs: map[string]*SpecFunc{}}
}

var kwRe = regexp.MustCompile(`^(func|requires|ensures|modifies|loop|pure|rec|pred|axiom|lemma|trusted|opaque|global|uninterp|note|cost|reads|noreads)\b`)
var tagRe = regexp.MustCompile(`\s\[(C[0-9]+[A-Za-z0-9_,\- ]*)\]\s*$`)

type rawClause struct {
	text string
	file string
	line int
}

// readContractLines extracts logical clauses from a file. If goFile is true only lines starting with //@ count.
func readContractLines(path string, goFile bool) ([]rawClause, error) {
	data, err := os.ReadFile(path)
	if err != nil {
		return nil, err
	}
	var out []rawClause
	for ln, line := range strings.Split(string(data), "\n") {
		var body string
		if goFile {
			t := strings.TrimSpace(line)
			if !strings.HasPrefix(t, "//@") {
				continue
			}
			body = strings.TrimPrefix(t, "//@")
		} else {
			body = line
			if i := strings.Index(body, "#!"); i >= 0 { // comment marker in .contracts/.spec files
				body = body[:i]
			}
		}
		tb := strings.TrimSpace(body)
		if tb == "" {
			continue
		}
		if kwRe.MatchString(tb) {
			out = append(out, rawClause{tb, path, ln + 1})
		} else {
			if len(out) == 0 {
				return nil, fmt.Errorf("%s:%d: continuation line without a clause", path, ln+1)
			}
			out[len(out)-1].text += " " + tb
		}
	}
	return out, nil
}

func splitTags(text string) (string, []string, string) {
	m := tagRe.FindStringSubmatch(text)
	if m == nil {
		return strings.TrimSpace(text), nil, ""
	}
	rest := strings.TrimSpace(text[:len(text)-len(m[0])])
	var tags []string
	label := ""
	for _, t := range strings.FieldsFunc(m[1], func(r rune) bool { return r == ',' || r == ' ' }) {
		if regexp.MustCompile(`^C[0-9]+$`).MatchString(t) {
			tags = append(tags, t)
		} else {
			label = t
		}
	}
	return rest, tags, label
}

func parseExprList(src string) ([]*Expr, error) {
	e, err := ParseExpr("list__(" + src + ")")
	if err != nil {
		return nil, err
	}
	return e.Args, nil
}

var sigRe = regexp.MustCompile(`^([A-Za-z_][A-Za-z0-9_]*)\s*\(([^)]*)\)\s*([*\[\]A-Za-z0-9_.]+)\s*(=\s*(.*))?$`)

func parseParams(s string) ([]VarDecl, error) {
	var out []VarDecl
	s = strings.TrimSpace(s)
	if s == "" {
		return nil, nil
	}
	var pending []string
	for _, part := range strings.Split(s, ",") {
		f := strings.Fields(part)
		switch len(f) {
		case 1:
			pending = append(pending, f[0])
		case 2:
			for _, p := range pending {
				out = append(out, VarDecl{p, f[1]})
			}
			pending = nil
			out = append(out, VarDecl{f[0], f[1]})
		default:
			return nil, fmt.Errorf("bad parameter %q", part)
		}
	}
	if len(pending) > 0 {
		return nil, fmt.Errorf("parameter without type: %v", pending)
	}
	return out, nil
}

// LoadFile adds the clauses of one file. pkg is the short package name used to qualify func keys in go files.
func (cs *ContractSet) LoadFile(path string, goFile bool, pkg string) error {
	raws, err := readContractLines(path, goFile)
	if err != nil {
		return err
	}
	var cur *FuncContract
	var curSpec *SpecFunc
	errf := func(rc rawClause, f string, a ...interface{}) error {
		return fmt.Errorf("%s:%d: %s", rc.file, rc.line, fmt.Sprintf(f, a...))
	}
	for _, rc := range raws {
		kw := kwRe.FindString(rc.text)
		rest := strings.TrimSpace(rc.text[len(kw):])
		switch kw {
		case "func", "trusted", "opaque":
			curSpec = nil
			key := rest
			var params, results []VarDecl
			// optional signature: name(params) (results)
			if i := strings.Index(rest, " :: "); i >= 0 {
				key = strings.TrimSpace(rest[:i])
				sig := strings.TrimSpace(rest[i+4:])
				// sig form: (a T, b T) (r T)
				parts := strings.SplitN(sig, "->", 2)
				p := strings.Trim(strings.TrimSpace(parts[0]), "()")
				params, err = parseParams(p)
				if err != nil {
					return errf(rc, "%v", err)
				}
				if len(parts) == 2 {
					r := strings.Trim(strings.TrimSpace(parts[1]), "()")
					results, err = parseParams(r)
					if err != nil {
						return errf(rc, "%v", err)
					}
				}
			}
			if !strings.Contains(key, ".") || strings.HasPrefix(key, "(") && !strings.Contains(strings.SplitN(key, ")", 2)[0], ".") {
				if pkg != "" {
					key = qualifyKey(pkg, key)
				}
			}
			if _, dup := cs.Funcs[key]; dup {
				return errf(rc, "duplicate contract for %s", key)
			}
			cur = &FuncContract{Key: key, Pkg: pkg, Loops: map[int]*LoopContract{}, Trusted: kw == "trusted", Opaque: kw == "opaque",
				Params: params, Results: results, File: rc.file, Line: rc.line}
			cs.Funcs[key] = cur
			cs.Order = append(cs.Order, key)
		case "note":
			if cur != nil {
				cur.Note = rest
			}
		case "reads":
			if cur != nil {
				cur.Reads = append(cur.Reads, rest)
			}
		case "noreads":
			if cur == nil {
				return errf(rc, "noreads outside func")
			}
			text, tags, label := splitTags(rest)
			nr := &NoReadsClause{Except: map[string]bool{}, Text: text, Tags: tags, Label: label, File: rc.file, Line: rc.line}
			lhs, rhs := text, ""
			if i := strings.Index(text, " except "); i >= 0 {
				lhs, rhs = text[:i], text[i+len(" except "):]
			}
			for _, f := range strings.Split(lhs, ",") {
				f = strings.TrimSpace(f)
				if f == "" {
					continue
				}
				i := strings.LastIndex(f, ".")
				if i < 0 {
					return errf(rc, "noreads: expected pkg.Type.field, got %q", f)
				}
				nr.Fields = append(nr.Fields, f)
				nr.Keys = append(nr.Keys, "H_"+f[:i]+"_"+f[i+1:])
			}
			for _, f := range strings.Split(rhs, ",") {
				f = strings.TrimSpace(f)
				if f != "" {
					if pkg != "" && !strings.Contains(f, pkg+".") {
						f = qualifyKey(pkg, f)
					}
					nr.Except[f] = true
				}
			}
			cur.NoReads = append(cur.NoReads, nr)
		case "requires", "ensures", "cost":
			text, tags, label := splitTags(rest)
			if curSpec != nil && kw == "ensures" {
				e, err := ParseExpr(text)
				if err != nil {
					return errf(rc, "%v", err)
				}
				curSpec.Axioms = append(curSpec.Axioms, &Clause{Kind: "ensures", Expr: e, Text: text, Tags: tags, Label: label, File: rc.file, Line: rc.line})
				continue
			}
			if cur == nil {
				return errf(rc, "%s outside func", kw)
			}
			e, err := ParseExpr(text)
			if err != nil {
				return errf(rc, "%v", err)
			}
			c := &Clause{Kind: kw, Expr: e, Text: text, Tags: tags, Label: label, File: rc.file, Line: rc.line}
			switch kw {
			case "requires":
				cur.Requires = append(cur.Requires, c)
			case "ensures":
				cur.Ensures = append(cur.Ensures, c)
			case "cost":
				cur.Cost = c
			}
		case "modifies":
			if cur == nil {
				return errf(rc, "modifies outside func")
			}
			text, tags, label := splitTags(rest)
			cur.HasMod = true
			if strings.TrimSpace(text) == "nothing" || strings.TrimSpace(text) == "" {
				continue
			}
			es, err := parseExprList(text)
			if err != nil {
				return errf(rc, "%v", err)
			}
			cur.Modifies = append(cur.Modifies, &Clause{Kind: "modifies", Exprs: es, Text: text, Tags: tags, Label: label, File: rc.file, Line: rc.line})
		case "loop":
			if cur == nil {
				return errf(rc, "loop outside func")
			}
			f := strings.Fields(rest)
			if len(f) < 2 {
				return errf(rc, "bad loop clause")
			}
			n, err := strconv.Atoi(f[0])
			if err != nil {
				return errf(rc, "bad loop ordinal %q", f[0])
			}
			lc := cur.Loops[n]
			if lc == nil {
				lc = &LoopContract{}
				cur.Loops[n] = lc
			}
			sub := f[1]
			body := strings.TrimSpace(strings.TrimPrefix(strings.TrimSpace(strings.TrimPrefix(rest, f[0])), sub))
			text, tags, label := splitTags(body)
			switch sub {
			case "invariant":
				e, err := ParseExpr(text)
				if err != nil {
					return errf(rc, "%v", err)
				}
				lc.Invariants = append(lc.Invariants, &Clause{Kind: "invariant", Expr: e, Text: text, Tags: tags, Label: label, File: rc.file, Line: rc.line})
			case "exit-assert":
				e, err := ParseExpr(text)
				if err != nil {
					return errf(rc, "%v", err)
				}
				lc.ExitAsserts = append(lc.ExitAsserts, &Clause{Kind: "assert", Expr: e, Text: text, Tags: tags, Label: label, File: rc.file, Line: rc.line})
			case "step":
				e, err := ParseExpr(text)
				if err != nil {
					return errf(rc, "%v", err)
				}
				lc.Steps = append(lc.Steps, &Clause{Kind: "step", Expr: e, Text: text, Tags: tags, Label: label, File: rc.file, Line: rc.line})
			case "decreases":
				es, err := parseExprList(text)
				if err != nil {
					return errf(rc, "%v", err)
				}
				lc.Decreases = &Clause{Kind: "decreases", Exprs: es, Text: text, Tags: tags, Label: label, File: rc.file, Line: rc.line}
			case "modifies":
				c := &Clause{Kind: "modifies", Text: text, Tags: tags, File: rc.file, Line: rc.line}
				if strings.TrimSpace(text) != "nothing" {
					es, err := parseExprList(text)
					if err != nil {
						return errf(rc, "%v", err)
					}
					c.Exprs = es
				}
				lc.Modifies = c
			case "unroll":
				k, err := strconv.Atoi(strings.TrimSpace(text))
				if err != nil {
					return errf(rc, "bad unroll count")
				}
				lc.Unroll = k
			default:
				return errf(rc, "unknown loop clause %q", sub)
			}
		case "pure", "rec", "pred", "uninterp":
			cur = nil
			text := rest
			var dec *Expr
			if kw == "rec" {
				if i := strings.LastIndex(text, " decreases "); i >= 0 {
					d, err := ParseExpr(text[i+len(" decreases "):])
					if err != nil {
						return errf(rc, "%v", err)
					}
					dec = d
					text = text[:i]
				}
			}
			m := sigRe.FindStringSubmatch(text)
			if m == nil {
				return errf(rc, "bad spec function declaration %q", text)
			}
			params, err := parseParams(m[2])
			if err != nil {
				return errf(rc, "%v", err)
			}
			sf := &SpecFunc{Name: m[1], Params: params, Ret: m[3], Rec: kw == "rec", Pred: kw == "pred", Uninterp: kw == "uninterp", Decreases: dec, File: rc.file, Line: rc.line}
			if kw != "uninterp" {
				if m[5] == "" {
					return errf(rc, "spec function %s needs a body", m[1])
				}
				b, err := ParseExpr(m[5])
				if err != nil {
					return errf(rc, "%v", err)
				}
				sf.Body = b
			}
			if _, dup := cs.Specs[sf.Name]; dup {
				return errf(rc, "duplicate spec function %s", sf.Name)
			}
			cs.Specs[sf.Name] = sf
			curSpec = sf
		case "axiom", "lemma":
			cur = nil
			curSpec = nil
			text, tags, _ := splitTags(rest)
			i := strings.Index(text, ":")
			if i < 0 {
				return errf(rc, "axiom/lemma needs a name: axiom name: expr")
			}
			e, err := ParseExpr(text[i+1:])
			if err != nil {
				return errf(rc, "%v", err)
			}
			cs.Axioms = append(cs.Axioms, &Axiom{Name: strings.TrimSpace(text[:i]), Expr: e, Text: text[i+1:], File: rc.file, Line: rc.line, Lemma: kw == "lemma", Tags: tags})
		case "global":
			cur = nil
			curSpec = nil
			text, tags, _ := splitTags(rest)
			i := strings.Index(text, ":")
			if i < 0 {
				return errf(rc, "global invariant needs a name: global name: expr")
			}
			e, err := ParseExpr(text[i+1:])
			if err != nil {
				return errf(rc, "%v", err)
			}
			cs.Globals = append(cs.Globals, &GlobalInv{Name: strings.TrimSpace(text[:i]), Expr: e, Text: text[i+1:], Tags: tags})
		}
	}
	return nil
}

// qualifyKey turns "(*parser).parseHost" into "url.(*parser).parseHost" and "trim" into "url.trim".
func qualifyKey(pkg, key string) string {
	if strings.HasPrefix(key, "(*") {
		return "(*" + pkg + "." + key[2:]
	}
	if strings.HasPrefix(key, "(") {
		return "(" + pkg + "." + key[1:]
	}
	return pkg + "." + key
}

func (cs *ContractSet) SortedKeys() []string {
	var ks []string
	for k := range cs.Funcs {
		ks = append(ks, k)
	}
	sort.Strings(ks)
	return ks
}
