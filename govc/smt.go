package main

// SMT term helpers, sorts, the string/heap prelude.

import (
	"fmt"
	"go/types"
	"sort"
	"strings"
)

type Term = string

func app(f string, args ...Term) Term {
	if len(args) == 0 {
		return f
	}
	return "(" + f + " " + strings.Join(args, " ") + ")"
}

func and(ts ...Term) Term {
	var out []Term
	for _, t := range ts {
		if t == "true" || t == "" {
			continue
		}
		if t == "false" {
			return "false"
		}
		out = append(out, t)
	}
	switch len(out) {
	case 0:
		return "true"
	case 1:
		return out[0]
	}
	return app("and", out...)
}

func or(ts ...Term) Term {
	var out []Term
	for _, t := range ts {
		if t == "false" || t == "" {
			continue
		}
		if t == "true" {
			return "true"
		}
		out = append(out, t)
	}
	switch len(out) {
	case 0:
		return "false"
	case 1:
		return out[0]
	}
	return app("or", out...)
}

func not(t Term) Term {
	switch t {
	case "true":
		return "false"
	case "false":
		return "true"
	}
	if strings.HasPrefix(t, "(not ") && balanced(t[5:len(t)-1]) {
		return t[5 : len(t)-1]
	}
	return app("not", t)
}

func balanced(s string) bool {
	d := 0
	for i := 0; i < len(s); i++ {
		switch s[i] {
		case '(':
			d++
		case ')':
			d--
			if d < 0 {
				return false
			}
		case ' ':
			if d == 0 {
				return false
			}
		}
	}
	return d == 0
}

func implies(a, b Term) Term {
	if a == "true" {
		return b
	}
	if b == "true" {
		return "true"
	}
	if a == "false" {
		return "true"
	}
	return app("=>", a, b)
}

func ite(c, a, b Term) Term {
	if c == "true" {
		return a
	}
	if c == "false" {
		return b
	}
	if a == b {
		return a
	}
	return app("ite", c, a, b)
}

func eq(a, b Term) Term {
	if a == b {
		return "true"
	}
	return app("=", a, b)
}

func intLit(v int64) Term {
	if v < 0 {
		return fmt.Sprintf("(- %d)", -v)
	}
	return fmt.Sprintf("%d", v)
}

func intLitStr(s string) Term {
	if strings.HasPrefix(s, "-") {
		return "(- " + s[1:] + ")"
	}
	return s
}

// splitArgs splits "(f a b c)" into ["f","a","b","c"] at the top level.
func splitArgs(t Term) []string {
	if len(t) < 2 || t[0] != '(' || t[len(t)-1] != ')' {
		return nil
	}
	body := t[1 : len(t)-1]
	var out []string
	d, st := 0, 0
	for i := 0; i <= len(body); i++ {
		if i == len(body) || (body[i] == ' ' && d == 0) {
			if i > st {
				out = append(out, body[st:i])
			}
			st = i + 1
			continue
		}
		switch body[i] {
		case '(':
			d++
		case ')':
			d--
		}
	}
	return out
}

func sliceProj(f string, idx int, t Term) Term {
	if strings.HasPrefix(t, "(mkslice ") {
		if a := splitArgs(t); len(a) == 5 {
			return a[idx]
		}
	}
	return app(f, t)
}
func sarrOf(t Term) Term { return sliceProj("sarr", 1, t) }
func soffOf(t Term) Term { return sliceProj("soff", 2, t) }
func slenOf(t Term) Term { return sliceProj("slen_", 3, t) }
func scapOf(t Term) Term { return sliceProj("scap", 4, t) }

// sidx(off, i) = off + i, kept as an uninterpreted application so that quantifier patterns over slice elements match
// syntactically (E-matching on arithmetic terms is unreliable).
func sidx(off, i Term) Term {
	return app("sidx", off, i)
}

func plus(a, b Term) Term {
	if a == "0" {
		return b
	}
	if b == "0" {
		return a
	}
	x, ok1 := isIntLitT(a)
	y, ok2 := isIntLitT(b)
	if ok1 && ok2 {
		return intLit(x + y)
	}
	return app("+", a, b)
}

func minus(a, b Term) Term {
	if b == "0" {
		return a
	}
	x, ok1 := isIntLitT(a)
	y, ok2 := isIntLitT(b)
	if ok1 && ok2 {
		return intLit(x - y)
	}
	return app("-", a, b)
}

func isIntLitT(t Term) (int64, bool) {
	var v int64
	if len(t) == 0 || len(t) > 15 {
		return 0, false
	}
	for i := 0; i < len(t); i++ {
		if t[i] < '0' || t[i] > '9' {
			return 0, false
		}
		v = v*10 + int64(t[i]-'0')
	}
	return v, true
}

func sel(a, i Term) Term      { return app("select", a, i) }
func store(a, i, v Term) Term { return app("store", a, i, v) }

// ---------------------------------------------------------------------------------------------
// Sorts

const (
	SInt   = "Int"
	SBool  = "Bool"
	SStr   = "Str"
	SSlice = "Slice"
	SReal  = "Real"
)

func arrSort(elem string) string { return "(Array Int " + elem + ")" }

// sortOf maps a Go type to an SMT sort for values held in registers/cells. Struct types have no single sort.
func sortOf(t types.Type) (string, bool) {
	switch u := t.Underlying().(type) {
	case *types.Basic:
		switch {
		case u.Info()&types.IsBoolean != 0:
			return SBool, true
		case u.Info()&types.IsInteger != 0:
			return SInt, true
		case u.Info()&types.IsString != 0:
			return SStr, true
		case u.Info()&types.IsFloat != 0:
			return SReal, true
		case u.Kind() == types.UntypedNil:
			return SInt, true
		case u.Kind() == types.UnsafePointer:
			return "", false
		}
	case *types.Pointer, *types.Map, *types.Interface, *types.Signature, *types.Chan:
		return SInt, true
	case *types.Slice:
		return SSlice, true
	case *types.Array:
		es, ok := sortOf(u.Elem())
		if !ok {
			return "", false
		}
		return arrSort(es), true
	}
	return "", false
}

// intRange returns the value range of an integer type.
func intRange(t types.Type) (lo, hi string, ok bool) {
	b, isB := t.Underlying().(*types.Basic)
	if !isB || b.Info()&types.IsInteger == 0 {
		return "", "", false
	}
	switch b.Kind() {
	case types.Int8:
		return "(- 128)", "127", true
	case types.Int16:
		return "(- 32768)", "32767", true
	case types.Int32:
		return "(- 2147483648)", "2147483647", true
	case types.Int, types.Int64, types.UntypedInt, types.UntypedRune:
		return "(- 9223372036854775808)", "9223372036854775807", true
	case types.Uint8:
		return "0", "255", true
	case types.Uint16:
		return "0", "65535", true
	case types.Uint32:
		return "0", "4294967295", true
	case types.Uint, types.Uint64, types.Uintptr:
		return "0", "18446744073709551615", true
	}
	return "", "", false
}

func intBits(t types.Type) (bits int, signed bool) {
	b, isB := t.Underlying().(*types.Basic)
	if !isB {
		return 0, false
	}
	switch b.Kind() {
	case types.Int8:
		return 8, true
	case types.Int16:
		return 16, true
	case types.Int32:
		return 32, true
	case types.Int, types.Int64, types.UntypedInt, types.UntypedRune:
		return 64, true
	case types.Uint8:
		return 8, false
	case types.Uint16:
		return 16, false
	case types.Uint32:
		return 32, false
	case types.Uint, types.Uint64, types.Uintptr:
		return 64, false
	}
	return 0, false
}

func pow2(n int) string {
	// decimal text of 2^n for n <= 64
	var v [3]uint64 // not needed; use big via fmt
	_ = v
	switch n {
	case 8:
		return "256"
	case 16:
		return "65536"
	case 32:
		return "4294967296"
	case 64:
		return "18446744073709551616"
	case 63:
		return "9223372036854775808"
	case 31:
		return "2147483648"
	case 15:
		return "32768"
	case 7:
		return "128"
	}
	r := uint64(1) << uint(n)
	return fmt.Sprintf("%d", r)
}

// typeName gives a short, SMT-symbol-safe name for a Go type (used in heap keys).
func typeName(t types.Type) string {
	switch u := t.(type) {
	case *types.Named:
		o := u.Obj()
		if o.Pkg() != nil {
			return o.Pkg().Name() + "." + o.Name()
		}
		return o.Name()
	case *types.Basic:
		switch u.Kind() {
		case types.Uint8:
			return "byte"
		case types.Int32:
			return "rune"
		}
		return u.Name()
	case *types.Pointer:
		return "p." + typeName(u.Elem())
	case *types.Slice:
		return "s." + typeName(u.Elem())
	case *types.Array:
		return fmt.Sprintf("a%d.%s", u.Len(), typeName(u.Elem()))
	case *types.Interface:
		if u.NumMethods() == 0 {
			return "any"
		}
		return "iface"
	case *types.Signature:
		return "func"
	case *types.Map:
		return "m." + typeName(u.Key()) + "." + typeName(u.Elem())
	case *types.Struct:
		return "struct"
	}
	return "T"
}

func zeroOfSort(s string) Term {
	switch s {
	case SInt:
		return "0"
	case SBool:
		return "false"
	case SStr:
		return "lit_empty"
	case SSlice:
		return "(mkslice 0 0 0 0)"
	case SReal:
		return "0.0"
	}
	if s == "(Array Int Str)" {
		return "zarr_Str"
	}
	if strings.HasPrefix(s, "(Array Int ") {
		inner := s[len("(Array Int ") : len(s)-1]
		return "((as const " + s + ") " + zeroOfSort(inner) + ")"
	}
	panic("zeroOfSort: " + s)
}

// ---------------------------------------------------------------------------------------------
// Prelude

const prelude = `
(declare-sort Str 0)
(declare-fun sidx (Int Int) Int)
(assert (forall ((o Int) (k Int)) (! (= (sidx o k) (+ o k)) :pattern ((sidx o k)))))
(declare-datatypes ((Slice 0)) (((mkslice (sarr Int) (soff Int) (slen_ Int) (scap Int)))))
(declare-fun slen (Str) Int)
(declare-fun sbytes (Str) (Array Int Int))
(define-fun sat ((s Str) (i Int)) Int (select (sbytes s) i))
(declare-fun scat (Str Str) Str)
(declare-fun ssub (Str Int Int) Str)
(declare-fun sunit (Int) Str)
(declare-fun seq (Str Str) Bool)
(declare-const lit_empty Str)
(assert (= (slen lit_empty) 0))
(assert (forall ((s Str)) (! (>= (slen s) 0) :pattern ((slen s)))))
(assert (forall ((s Str) (i Int)) (! (=> (and (<= 0 i) (< i (slen s))) (and (<= 0 (sat s i)) (<= (sat s i) 255))) :pattern ((select (sbytes s) i)))))
(assert (forall ((a Str) (b Str)) (! (= (slen (scat a b)) (+ (slen a) (slen b))) :pattern ((scat a b)))))
; the empty string is the unit of concatenation (follows from extensionality; stated so that it is available without a seq term)
(assert (forall ((a Str) (b Str)) (! (and (=> (= (slen a) 0) (= (scat a b) b)) (=> (= (slen b) 0) (= (scat a b) a))) :pattern ((scat a b)))))
(assert (forall ((a Str) (b Str) (i Int)) (! (= (sat (scat a b) i) (ite (< i (slen a)) (sat a i) (sat b (- i (slen a))))) :pattern ((select (sbytes (scat a b)) i)))))
(assert (forall ((s Str) (i Int) (j Int)) (! (=> (and (<= 0 i) (<= i j) (<= j (slen s))) (= (slen (ssub s i j)) (- j i))) :pattern ((ssub s i j)))))
(assert (forall ((s Str) (i Int) (j Int) (k Int)) (! (= (sat (ssub s i j) k) (sat s (+ i k))) :pattern ((select (sbytes (ssub s i j)) k)))))
(assert (forall ((s Str) (j Int)) (! (=> (= j (slen s)) (= (ssub s 0 j) s)) :pattern ((ssub s 0 j)))))
(assert (forall ((b Int)) (! (and (= (slen (sunit b)) 1) (=> (and (<= 0 b) (<= b 255)) (= (sat (sunit b) 0) b))) :pattern ((sunit b)))))
(assert (forall ((a Str) (b Str)) (! (= (seq a b) (= a b)) :pattern ((seq a b)))))
(assert (forall ((a Str) (b Str)) (! (= (seq a b) (and (= (slen a) (slen b)) (forall ((k Int)) (! (=> (and (<= 0 k) (< k (slen a))) (= (sat a k) (sat b k))) :pattern ((select (sbytes a) k)) :pattern ((select (sbytes b) k)))))) :pattern ((seq a b)))))
; rune decoding at a byte offset (Go range-over-string semantics)
(declare-fun rwidth (Str Int) Int)
(declare-fun rat (Str Int) Int)
(assert (forall ((s Str) (p Int)) (! (=> (and (<= 0 p) (< p (slen s)))
   (and (<= 1 (rwidth s p)) (<= (rwidth s p) 4) (<= (+ p (rwidth s p)) (slen s))
        (<= 0 (rat s p)) (<= (rat s p) 1114111)
        (not (and (<= 55296 (rat s p)) (<= (rat s p) 57343)))
        (=> (< (sat s p) 128) (and (= (rat s p) (sat s p)) (= (rwidth s p) 1)))
        (=> (>= (sat s p) 128) (>= (rat s p) 128))
        (=> (> (rwidth s p) 1) (and (>= (rat s p) 128) (>= (sat s p) 192)
             (forall ((j Int)) (! (=> (and (< p j) (< j (+ p (rwidth s p)))) (>= (sat s j) 128)) :pattern ((select (sbytes s) j))))))
        (= (rwidth s p) (ite (= (rat s p) 65533) (rwidth s p) (ite (< (rat s p) 128) 1 (ite (< (rat s p) 2048) 2 (ite (< (rat s p) 65536) 3 4)))))
        ))
   :pattern ((rwidth s p)) :pattern ((rat s p)))))
; []rune(s)
(declare-fun srunes (Str) (Array Int Int))
(declare-fun rcount (Str) Int)
(assert (forall ((s Str)) (! (and (<= 0 (rcount s)) (<= (rcount s) (slen s)) (= (= (rcount s) 0) (= (slen s) 0))) :pattern ((rcount s)))))
(assert (forall ((s Str) (k Int)) (! (=> (and (<= 0 k) (< k (rcount s))) (and (<= 0 (select (srunes s) k)) (<= (select (srunes s) k) 1114111) (not (and (<= 55296 (select (srunes s) k)) (<= (select (srunes s) k) 57343))))) :pattern ((select (srunes s) k)))))
; string(bytes[off:off+n]) and string(runes[off:off+n])
(declare-fun str_of_bytes ((Array Int Int) Int Int) Str)
(assert (forall ((a (Array Int Int)) (o Int) (n Int)) (! (=> (>= n 0) (= (slen (str_of_bytes a o n)) n)) :pattern ((str_of_bytes a o n)))))
(assert (forall ((a (Array Int Int)) (o Int) (n Int) (k Int)) (! (=> (and (<= 0 k) (< k n) (<= 0 (select a (sidx o k))) (<= (select a (sidx o k)) 255)) (= (sat (str_of_bytes a o n) k) (select a (sidx o k)))) :pattern ((select (sbytes (str_of_bytes a o n)) k)))))
(declare-fun str_of_runes ((Array Int Int) Int Int) Str)
(assert (forall ((a (Array Int Int)) (o Int) (n Int)) (! (and (>= (slen (str_of_runes a o n)) (ite (< n 0) 0 n)) (=> (<= n 0) (= (slen (str_of_runes a o n)) 0)) (<= (slen (str_of_runes a o n)) (* 4 (ite (< n 0) 0 n)))) :pattern ((str_of_runes a o n)))))
; first byte of string(runes): the first rune's own value when it is ASCII, a lead byte >= 128 otherwise (invalid runes become U+FFFD)
(assert (forall ((a (Array Int Int)) (o Int) (n Int)) (! (=> (>= n 1)
   (ite (and (<= 0 (select a (sidx o 0))) (< (select a (sidx o 0)) 128))
        (= (sat (str_of_runes a o n) 0) (select a (sidx o 0)))
        (>= (sat (str_of_runes a o n) 0) 128))) :pattern ((str_of_runes a o n)))))
; utf8 encoding of one rune: string(r)
(declare-fun utf8 (Int) Str)
(define-fun rvalid ((r Int)) Bool (and (<= 0 r) (<= r 1114111) (not (and (<= 55296 r) (<= r 57343)))))
(assert (forall ((r Int)) (! (and
    (= (slen (utf8 r)) (ite (not (rvalid r)) 3 (ite (< r 128) 1 (ite (< r 2048) 2 (ite (< r 65536) 3 4)))))
    (=> (and (<= 0 r) (< r 128)) (= (sat (utf8 r) 0) r))
    (=> (not (and (<= 0 r) (< r 128))) (forall ((k Int)) (! (=> (and (<= 0 k) (< k (slen (utf8 r)))) (>= (sat (utf8 r) k) 128)) :pattern ((select (sbytes (utf8 r)) k))))))
  :pattern ((utf8 r)))))
(declare-const zarr_Str (Array Int Str))
(assert (forall ((k Int)) (! (= (select zarr_Str k) lit_empty) :pattern ((select zarr_Str k)))))
(assert (forall ((a Str) (r Int)) (! (= (rcount (scat a (utf8 r))) (+ (rcount a) 1)) :pattern ((rcount (scat a (utf8 r)))))))
(assert (= (rcount lit_empty) 0))
; embedded struct addressing
(declare-fun emb (Int Int) Int)
(declare-fun embroot (Int) Int)
(assert (forall ((p Int) (k Int)) (! (and (< (emb p k) 0) (= (embroot (emb p k)) p)) :pattern ((emb p k)))))
(define-fun isfresh ((o Int) (a0 Int)) Bool (or (>= o a0) (and (< o 0) (>= (embroot o) a0))))
(define-fun isalloc ((o Int) (a Int)) Bool (ite (>= o 0) (< o a) (< (embroot o) a)))
; maps (read-only after construction in the verified packages)
(declare-fun maphas_Str (Int Str) Bool)
(declare-fun mapval_Str_Str (Int Str) Str)
; misc
(define-fun imin ((a Int) (b Int)) Int (ite (<= a b) a b))
(define-fun imax ((a Int) (b Int)) Int (ite (<= a b) b a))
`

// Literal table: string literals become constants with length/byte axioms.
type Lits struct {
	byVal map[string]string
	names []string
	defs  []string
}

func NewLits() *Lits { return &Lits{byVal: map[string]string{"": "lit_empty"}} }

func (l *Lits) Get(v string) Term {
	if n, ok := l.byVal[v]; ok {
		return n
	}
	n := fmt.Sprintf("lit_%d", len(l.byVal))
	l.byVal[v] = n
	l.names = append(l.names, n)
	var sb strings.Builder
	fmt.Fprintf(&sb, "(declare-const %s Str)\n(assert (= (slen %s) %d))\n", n, n, len(v))
	for i := 0; i < len(v); i++ {
		fmt.Fprintf(&sb, "(assert (= (sat %s %d) %d))\n", n, i, v[i])
	}
	l.defs = append(l.defs, sb.String())
	return n
}

func (l *Lits) Defs() string {
	// distinctness of different literals follows from extensionality, but stating it directly helps the solvers
	var sb strings.Builder
	for _, d := range l.defs {
		sb.WriteString(d)
	}
	if len(l.names) > 0 {
		all := append([]string{"lit_empty"}, l.names...)
		sort.Strings(all)
		if len(all) > 1 {
			sb.WriteString("(assert (distinct " + strings.Join(all, " ") + "))\n")
		}
	}
	return sb.String()
}
