package main

// World: loaded packages, SSA program, contracts, global SMT definitions.

import (
	"fmt"
	"go/ast"
	"go/token"
	"go/types"
	"os"
	"path/filepath"
	"sort"
	"strings"

	"golang.org/x/tools/go/packages"
	"golang.org/x/tools/go/ssa"
	"golang.org/x/tools/go/ssa/ssautil"
)

type World struct {
	repo       string
	verif      string
	fset       *token.FileSet
	prog       *ssa.Program
	pkgs       []*packages.Package
	typePkgs   map[string]*types.Package // verified packages by name
	allPkgs    []*types.Package
	ssaPkgs    map[string]*ssa.Package
	cs         *ContractSet
	lits       *Lits
	heapSorts  map[string]string
	heapOrder  []string
	fnByKey    map[string]*ssa.Function
	specUsed   map[string]bool
	typeIDs    map[string]int
	writesMemo map[string]map[string]bool
	readsMemo  map[string]map[string]bool
	readsBusy  map[string]bool
	pureDecls  map[string]string
	pureOrder  []string
	initReach  map[string]map[*ssa.Function]bool
	specCore   string
	lemmaTerms []Term
	writesBusy map[string]bool
	funcIDs    map[string]int
	specText   string // cached SMT text of spec definitions
	warnings   []string
}

func shortFuncKey(f *ssa.Function) string {
	// (*github.com/nlnwa/whatwg-url/url.parser).parseHost -> (*url.parser).parseHost
	s := f.String()
	return shortenPaths(s)
}

func shortenPaths(s string) string {
	// replace any "path/to/pkg." by "pkg."
	var out strings.Builder
	i := 0
	for i < len(s) {
		// scan a token of path characters
		j := i
		for j < len(s) && (isPathChar(s[j])) {
			j++
		}
		if j > i {
			tok := s[i:j]
			if k := strings.LastIndex(tok, "/"); k >= 0 {
				tok = tok[k+1:]
			}
			out.WriteString(tok)
			i = j
			continue
		}
		out.WriteByte(s[i])
		i++
	}
	return out.String()
}

func isPathChar(c byte) bool {
	return c == '/' || c == '.' || c == '_' || c == '-' || c == '$' || c == '#' || (c >= 'a' && c <= 'z') || (c >= 'A' && c <= 'Z') || (c >= '0' && c <= '9')
}

func LoadWorld(repo, verif string) (*World, error) {
	w := &World{repo: repo, verif: verif, typePkgs: map[string]*types.Package{}, ssaPkgs: map[string]*ssa.Package{},
		lits: NewLits(), heapSorts: map[string]string{}, fnByKey: map[string]*ssa.Function{}, specUsed: map[string]bool{},
		typeIDs: map[string]int{}, writesMemo: map[string]map[string]bool{}, readsMemo: map[string]map[string]bool{}, readsBusy: map[string]bool{}, writesBusy: map[string]bool{}, funcIDs: map[string]int{}}
	w.regHeap(keyBuilder, arrSort(SStr))
	w.regHeap(keyBitSet, arrSort(arrSort(SBool)))
	w.regHeap("$cost", SInt)
	cfg := &packages.Config{Mode: packages.LoadAllSyntax, Dir: repo, BuildFlags: []string{"-tags=verif"},
		Env: append(os.Environ(), "GOFLAGS=-mod=mod", "GOPROXY=off", "GOSUMDB=off", "GOTOOLCHAIN=local")}
	pkgs, err := packages.Load(cfg, "./url", "./canonicalizer", "./errors")
	if err != nil {
		return nil, err
	}
	nerr := 0
	packages.Visit(pkgs, nil, func(p *packages.Package) {
		for _, e := range p.Errors {
			fmt.Fprintf(os.Stderr, "load error: %v\n", e)
			nerr++
		}
	})
	if nerr > 0 {
		return nil, fmt.Errorf("%d package load errors", nerr)
	}
	w.pkgs = pkgs
	w.fset = pkgs[0].Fset
	prog, spkgs := ssautil.AllPackages(pkgs, ssa.NaiveForm|ssa.GlobalDebug)
	prog.Build()
	w.prog = prog
	for i, p := range pkgs {
		w.typePkgs[p.Types.Name()] = p.Types
		w.ssaPkgs[p.Types.Name()] = spkgs[i]
	}
	packages.Visit(pkgs, nil, func(p *packages.Package) {
		if p.Types != nil {
			w.allPkgs = append(w.allPkgs, p.Types)
		}
	})
	// index all functions with bodies in the verified packages (including closures and methods)
	for fn := range ssautil.AllFunctions(prog) {
		if fn.Pkg == nil {
			if fn.Parent() == nil {
				continue
			}
		}
		pk := fn.Pkg
		if pk == nil && fn.Parent() != nil {
			pk = fn.Parent().Pkg
		}
		if pk == nil {
			continue
		}
		if _, ok := w.typePkgs[pk.Pkg.Name()]; !ok || w.typePkgs[pk.Pkg.Name()] != pk.Pkg {
			continue
		}
		if fn.Blocks == nil || fn.Synthetic != "" && !strings.HasPrefix(fn.Synthetic, "package initializer") {
			continue
		}
		w.fnByKey[shortFuncKey(fn)] = fn
	}
	// contracts
	w.cs = NewContractSet()
	specFiles, _ := filepath.Glob(filepath.Join(verif, "spec", "*.spec"))
	sort.Strings(specFiles)
	for _, f := range specFiles {
		if err := w.cs.LoadFile(f, false, ""); err != nil {
			return nil, err
		}
	}
	trusted, _ := filepath.Glob(filepath.Join(verif, "trusted", "*.contracts"))
	sort.Strings(trusted)
	for _, f := range trusted {
		if err := w.cs.LoadFile(f, false, ""); err != nil {
			return nil, err
		}
	}
	for _, p := range pkgs {
		f := filepath.Join(repo, p.Types.Name(), "verif_contracts.go")
		if _, err := os.Stat(f); err == nil {
			if err := w.cs.LoadFile(f, true, p.Types.Name()); err != nil {
				return nil, err
			}
		}
	}
	return w, nil
}

func (w *World) specPkg(sf *SpecFunc) *types.Package {
	// spec functions resolve identifiers in the url package by default
	base := filepath.Base(sf.File)
	for name, p := range w.typePkgs {
		if strings.HasPrefix(base, name+".") || strings.Contains(sf.File, "/"+name+"/") {
			return p
		}
	}
	return w.typePkgs["url"]
}

func (w *World) useSpec(sf *SpecFunc) { w.specUsed[sf.Name] = true }

func (w *World) typeID(name string) int {
	if id, ok := w.typeIDs[name]; ok {
		return id
	}
	id := len(w.typeIDs) + 1
	w.typeIDs[name] = id
	return id
}

func (w *World) funcID(key string) int {
	if id, ok := w.funcIDs[key]; ok {
		return id
	}
	id := len(w.funcIDs) + 1
	w.funcIDs[key] = id
	return id
}

// SpecDefs renders all spec functions (define-fun / declare-fun + axioms) in dependency order.
func (w *World) SpecDefs() (string, error) {
	if w.specText != "" {
		return w.specText, nil
	}
	var names []string
	for n := range w.cs.Specs {
		names = append(names, n)
	}
	sort.Strings(names)
	var decls, defs, axioms strings.Builder
	done := map[string]bool{}
	busy := map[string]bool{}
	var emit func(n string) error
	sig := func(sf *SpecFunc) (string, string, []string, *Env, error) {
		env := &Env{w: w, pkg: w.specPkg(sf), vars: map[string]EV{}}
		var ps []string
		var sorts []string
		var err error
		func() {
			defer func() {
				if r := recover(); r != nil {
					if ee, ok := r.(evalErr); ok {
						err = fmt.Errorf("%s:%d: %s", sf.File, sf.Line, string(ee))
						return
					}
					panic(r)
				}
			}()
			for _, p := range sf.Params {
				s, gt := w.resolveType(p.Type, env.pkg)
				if s == SStruct {
					efail("spec function %s: struct parameter", sf.Name)
				}
				env.vars[p.Name] = EV{"a_" + p.Name, s, gt}
				ps = append(ps, "(a_"+p.Name+" "+s+")")
				sorts = append(sorts, s)
			}
		}()
		if err != nil {
			return "", "", nil, nil, err
		}
		rs, _ := w.resolveType(sf.Ret, env.pkg)
		return strings.Join(ps, " "), rs, sorts, env, nil
	}
	var collect func(e *Expr, out map[string]bool)
	collect = func(e *Expr, out map[string]bool) {
		if e == nil {
			return
		}
		if e.Op == "call" {
			if _, ok := w.cs.Specs[e.Name]; ok {
				out[e.Name] = true
			}
		}
		for _, a := range e.Args {
			collect(a, out)
		}
		for _, tr := range e.Trig {
			for _, t := range tr {
				collect(t, out)
			}
		}
	}
	emit = func(n string) error {
		if done[n] {
			return nil
		}
		sf := w.cs.Specs[n]
		if sf.Pred {
			// predicates are macros; but make sure spec functions they use are emitted
			deps := map[string]bool{}
			collect(sf.Body, deps)
			done[n] = true
			for d := range deps {
				if err := emit(d); err != nil {
					return err
				}
			}
			return nil
		}
		if busy[n] {
			if !sf.Rec && !sf.Uninterp {
				return fmt.Errorf("%s:%d: spec function %s is recursive; declare it with rec", sf.File, sf.Line, n)
			}
			return nil
		}
		busy[n] = true
		ps, rs, sorts, env, err := sig(sf)
		if err != nil {
			return err
		}
		// pure functions whose body contains a quantifier are kept opaque (function symbol + definitional axiom) so that
		// equal arguments give equal values by congruence instead of by re-instantiating the body
		if !sf.Rec && !sf.Uninterp && hasQuantifier(sf.Body) && len(sf.Params) > 0 {
			sf.Rec = true
		}
		if sf.Rec || sf.Uninterp {
			fmt.Fprintf(&decls, "(declare-fun sp_%s (%s) %s)\n", n, strings.Join(sorts, " "), rs)
		}
		deps := map[string]bool{}
		collect(sf.Body, deps)
		for _, ax := range sf.Axioms {
			collect(ax.Expr, deps)
		}
		var depNames []string
		for d := range deps {
			depNames = append(depNames, d)
		}
		sort.Strings(depNames)
		for _, d := range depNames {
			if d != n {
				if err := emit(d); err != nil {
					return err
				}
			}
		}
		var args []string
		for _, p := range sf.Params {
			args = append(args, "a_"+p.Name)
		}
		appl := app("sp_"+n, args...)
		if sf.Uninterp {
			for _, ax := range sf.Axioms {
				ne := env.child()
				ne.vars["result"] = EV{appl, rs, nil}
				t, err := ne.EvalBool(ax.Expr)
				if err != nil {
					return fmt.Errorf("%s:%d: %v", ax.File, ax.Line, err)
				}
				if len(args) == 0 {
					fmt.Fprintf(&axioms, "(assert %s)\n", t)
				} else {
					fmt.Fprintf(&axioms, "(assert (forall (%s) (! %s :pattern (%s))))\n", ps, t, appl)
				}
			}
		} else {
			b, err := env.Eval(sf.Body)
			if err != nil {
				return fmt.Errorf("%s:%d: %v", sf.File, sf.Line, err)
			}
			if b.S != rs {
				return fmt.Errorf("%s:%d: body of %s has sort %s, declared %s", sf.File, sf.Line, n, b.S, rs)
			}
			if sf.Rec {
				fmt.Fprintf(&axioms, "(assert (forall (%s) (! (= %s %s) :pattern (%s))))\n", ps, appl, b.T, appl)
				for _, ax := range sf.Axioms {
					ne := env.child()
					ne.vars["result"] = EV{appl, rs, nil}
					t, err := ne.EvalBool(ax.Expr)
					if err != nil {
						return fmt.Errorf("%s:%d: %v", ax.File, ax.Line, err)
					}
					fmt.Fprintf(&axioms, "(assert (forall (%s) (! %s :pattern (%s))))\n", ps, t, appl)
				}
			} else {
				fmt.Fprintf(&defs, "(define-fun sp_%s (%s) %s %s)\n", n, ps, rs, b.T)
			}
		}
		busy[n] = false
		done[n] = true
		return nil
	}
	for _, n := range names {
		if err := emit(n); err != nil {
			return "", err
		}
	}
	// user axioms and lemmas (a lemma is proved in isolation — see LemmaObligations — from the definitions and the lemmas
	// before it, and is then available everywhere)
	w.specCore = decls.String() + defs.String() + axioms.String()
	var lem strings.Builder
	w.lemmaTerms = nil
	for _, ax := range w.cs.Axioms {
		env := &Env{w: w, pkg: w.typePkgs["url"], vars: map[string]EV{}}
		t, err := env.EvalBool(ax.Expr)
		if err != nil {
			return "", fmt.Errorf("%s:%d: axiom %s: %v", ax.File, ax.Line, ax.Name, err)
		}
		fmt.Fprintf(&lem, "; %s\n(assert %s)\n", ax.Name, t)
		w.lemmaTerms = append(w.lemmaTerms, t)
	}
	w.specText = w.specCore + lem.String()
	return w.specText, nil
}

func hasQuantifier(e *Expr) bool {
	if e == nil {
		return false
	}
	if e.Op == "forall" || e.Op == "exists" {
		return true
	}
	for _, a := range e.Args {
		if hasQuantifier(a) {
			return true
		}
	}
	return false
}

// loopStmts returns the for/range statements of a function body in source pre-order, not descending into closures.
func loopStmts(n ast.Node) []ast.Node {
	var out []ast.Node
	if n == nil {
		return nil
	}
	var body ast.Node
	switch f := n.(type) {
	case *ast.FuncDecl:
		body = f.Body
	case *ast.FuncLit:
		body = f.Body
	default:
		return nil
	}
	if body == nil {
		return nil
	}
	ast.Inspect(body, func(x ast.Node) bool {
		switch x.(type) {
		case *ast.FuncLit:
			return false
		case *ast.ForStmt, *ast.RangeStmt:
			out = append(out, x)
		}
		return true
	})
	return out
}
