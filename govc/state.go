package main

import (
	"go/token"
	"go/types"

	"golang.org/x/tools/go/ssa"
)

// Val is the symbolic value of an SSA value: a Term (string) for scalars, slices and array values, or one of the
// structured forms below.
type Val interface{}

type AddrLocal struct {
	a    *ssa.Alloc
	path []int
}
type AddrField struct {
	ref Term
	st  types.Type // struct type (named) the field belongs to
	idx int
}
type AddrElem struct {
	key string // element heap array
	arr Term   // backing array object
	idx Term
}
type AddrGlobal struct {
	key  string
	sort string
	v    *types.Var
}
type StructVal struct {
	t types.Type
	f []Val
}
type TupleVal []Val
type IterVal struct {
	s  Term // string being iterated
	id string
}
type MapIterVal struct{}

type State struct {
	heap   map[string]Term
	alloc  Term
	locals map[*ssa.Alloc]Val
	iters  map[string]Term // range-over-string iterator byte positions
}

func (s *State) Heap(key string) Term {
	if t, ok := s.heap[key]; ok {
		return t
	}
	return key + "!0"
}

func (s *State) clone() *State {
	n := &State{heap: map[string]Term{}, alloc: s.alloc, locals: map[*ssa.Alloc]Val{}, iters: map[string]Term{}}
	for k, v := range s.heap {
		n.heap[k] = v
	}
	for k, v := range s.locals {
		n.locals[k] = v
	}
	for k, v := range s.iters {
		n.iters[k] = v
	}
	return n
}

type Obligation struct {
	Name   string
	Func   string
	Kind   string
	Tags   []string
	Label  string
	Goal   Term // to prove (already guarded by reachability)
	LogLen int
	Pos    token.Position
	Text   string
	Via    string
	// Slice restricts the log entries the obligation is proved from to those generated in the listed blocks (nil: all entries);
	// SliceKey identifies the slice. Dropping assumptions is always sound; it keeps the per-edge queries of big functions small.
	Slice    map[int]bool
	SliceKey string
	// results
	Status  string // "unsat" (discharged), "sat", "unknown", "timeout", "error"
	Solver  string
	TimeS   float64
	Output  string
	SMTSize int
}
